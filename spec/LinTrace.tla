------------------------------ MODULE LinTrace ------------------------------
(***************************************************************************)
(* Direction B for concurrent executions (C06, C07, C08): a call/return    *)
(* history recorded from the real code under the controlled scheduler must *)
(* be linearizable with respect to the L0 promise (FsDbAbs): TLC searches  *)
(* for a point between call and return of every operation at which its     *)
(* atomic L0 action takes effect and produces the recorded result.         *)
(*                                                                         *)
(* Begin of a RepeatableRead/Serializable transaction may take effect      *)
(* after it returned (but before the first other operation of the          *)
(* transaction takes effect): C08 demands one consistent, stable snapshot, *)
(* not recency.                                                            *)
(*                                                                         *)
(* Events: [e |-> "call", id, op, t, k, c, l] / [e |-> "ret", id, res, vs, *)
(* ks] / [e |-> "reset"].  The furthest event consumed on any path is kept *)
(* in TLC register 1; the orchestrator reads it when the trace is rejected.*)
(***************************************************************************)
EXTENDS FsDbAbs, Json

CONSTANTS TraceFile, AllowedDev

Trace == ndJsonDeserialize(TraceFile)

VARIABLES g, pend, l
vars == <<g, pend, l>>

Init == g = GInit /\ pend = EmptyF /\ l = 1 /\ TLCSet(1, 0)

HW == TLCSet(1, IF TLCGet(1) < l THEN l ELSE TLCGet(1))

Ids == DOMAIN pend

Known(t) == t = MainTx \/ t \in GOpen(g)

(* result of the atomic L0 action of operation o in state g: <<next g, result class, value>> *)
Effect(o) ==
  CASE o.op = "begin"    -> <<GBegin(g, o.t, o.l), "ok", 0>>
    [] o.op = "set"      -> IF Known(o.t) THEN <<GWrite(g, o.t, o.k, o.c), "ok", 0>>
                            ELSE <<g, IF "latewrite" \in AllowedDev THEN "ok" ELSE "txnotfound", 0>>
    [] o.op = "del"      -> IF Known(o.t) THEN <<GWrite(g, o.t, o.k, -1), "ok", 0>>
                            ELSE <<g, IF "latewrite" \in AllowedDev THEN "ok" ELSE "txnotfound", 0>>
    [] o.op = "get"      -> IF ~Known(o.t) THEN <<g, "txnotfound", 0>>
                            ELSE IF GRead(g, o.t, o.k) = 0 THEN <<g, "notfound", 0>>
                            ELSE <<g, "ok", GRead(g, o.t, o.k)>>
    [] o.op = "keys"     -> IF ~Known(o.t) THEN <<g, "txnotfound", {}>> ELSE <<g, "ok", GKeys(g, o.t)>>
    [] o.op = "commit"   -> IF o.t \notin GOpen(g) THEN <<g, "txnotfound", 0>>
                            ELSE <<GCommit(g, o.t), IF GConflict(g, o.t) THEN "serr" ELSE "ok", 0>>
    [] o.op = "rollback" -> IF o.t \notin GOpen(g) THEN <<g, "ok", 0>> ELSE <<GRollback(g, o.t), "ok", 0>>
    [] OTHER             -> <<g, "ok", 0>>          \* gc: the identity

(* an operation of transaction t can only take effect once t's Begin has (or t has ended) *)
BeginPending(t) == \E i \in Ids : pend[i].o.op = "begin" /\ pend[i].o.t = t /\ ~pend[i].lin

Call ==
  /\ l <= Len(Trace) /\ Trace[l].e = "call"
  /\ pend' = TLCEval((Trace[l].id :> [o |-> Trace[l], lin |-> FALSE, res |-> "", val |-> 0, ret |-> FALSE]) @@ pend)
  /\ l' = l + 1 /\ UNCHANGED g

Lin(i) ==
  /\ ~pend[i].lin
  /\ pend[i].o.op = "begin" \/ ~BeginPending(pend[i].o.t)
  /\ LET eff == Effect(pend[i].o)
     IN /\ g' = eff[1]
        /\ IF pend[i].ret
           THEN pend' = TLCEval([j \in Ids \ {i} |-> pend[j]])    \* a deferred snapshot Begin that had already returned
           ELSE pend' = TLCEval([pend EXCEPT ![i].lin = TRUE, ![i].res = eff[2], ![i].val = eff[3]])
  /\ UNCHANGED l

Deferrable(o) == o.op = "begin" /\ o.l \in SnapLevels

Matches(p, r) ==
  /\ p.res = r.res
  /\ p.o.op = "get" /\ p.res = "ok" => \E j \in 1..Len(r.vs) : r.vs[j] = p.val
  /\ p.o.op = "keys" /\ p.res = "ok" => {r.ks[j] : j \in 1..Len(r.ks)} = p.val

Ret ==
  /\ l <= Len(Trace) /\ Trace[l].e = "ret"
  /\ LET r == Trace[l]
         i == r.id
     IN /\ i \in Ids
        /\ IF pend[i].lin
           THEN /\ Matches(pend[i], r)
                /\ pend' = TLCEval([j \in Ids \ {i} |-> pend[j]])
           ELSE /\ Deferrable(pend[i].o) /\ r.res = "ok"
                /\ pend' = TLCEval([pend EXCEPT ![i].ret = TRUE])
  /\ l' = l + 1 /\ UNCHANGED g

Reset ==
  /\ l <= Len(Trace) /\ Trace[l].e = "reset"
  /\ g' = GInit /\ pend' = EmptyF /\ l' = l + 1

Next == Call \/ Ret \/ Reset \/ \E i \in Ids : Lin(i)

Spec == Init /\ [][Next]_vars

Accepted == IF TLCGet(1) = Len(Trace) + 1 THEN TRUE ELSE PrintT(<<"REJECTED_AT", TLCGet(1)>>) /\ FALSE
=============================================================================
