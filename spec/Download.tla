------------------------------ MODULE Download ------------------------------
(***************************************************************************)
(* Reading through the gRPC client while the transport fails               *)
(* (delivery/grpc/store/get.go -> stream -> pkg/external/db/get.go,        *)
(* get_reader.go -> streamreader).  Companion of Upload.tla.               *)
(*                                                                         *)
(* The server sends a header and then the content in chunks, and ends the  *)
(* call; the client hands the caller what it has received.  A fault after  *)
(* `p` units reached the client's side breaks the stream: the connection   *)
(* is cut ("cut") or the caller's context is cancelled ("cancel").  From   *)
(* then on Recv returns an error that is not io.EOF -- unless everything,  *)
(* including the end of the call, had already arrived.                     *)
(*                                                                         *)
(* Kind "pause": nothing fails, but the caller stops reading for a while   *)
(* after p units (seconds: longer than any reasonable per-message          *)
(* deadline): a download takes as long as its reader takes.                *)
(*                                                                         *)
(* Variant "asfound": the stream reader turns any Recv error into the end  *)
(* of the content (the same code serves uploads on the server side);       *)
(* "repaired": only io.EOF is the end.                                     *)
(***************************************************************************)
EXTENDS Integers, Sequences, FiniteSets, TLC, Json

CONSTANTS Lens, Kinds, Apis, Variant,
          Unit      \* KiB per unit (only passed on to the replay: 1 probes chunk boundaries, 64 exceeds the flow-control window)

VARIABLES len, kind, api, p,
          recv,      \* units that reached the client
          ended,     \* the end of the call (status OK) reached the client
          broken,    \* the fault has happened
          read,      \* units handed to the caller
          cstate     \* "run" | "eof" | "err"
vars == <<len, kind, api, p, recv, ended, broken, read, cstate>>

Init ==
  /\ len \in Lens /\ kind \in Kinds /\ api \in Apis /\ p \in 0..len
  /\ (kind = "none" => p = len)
  /\ (kind = "pause" => api = "reader")        \* only a reader can be read slowly
  /\ recv = 0 /\ ended = FALSE /\ broken = FALSE /\ read = 0 /\ cstate = "run"

ServerSend ==
  /\ ~broken /\ ~ended /\ recv < len /\ recv' = recv + 1
  /\ UNCHANGED <<len, kind, api, p, ended, broken, read, cstate>>
ServerEnd ==
  /\ ~broken /\ ~ended /\ recv = len /\ ended' = TRUE
  /\ UNCHANGED <<len, kind, api, p, recv, broken, read, cstate>>
(* the fault hits once p units are through (it may come too late to matter) *)
Fault ==
  /\ kind \notin {"none", "pause"} /\ ~broken /\ recv >= p /\ broken' = TRUE
  /\ UNCHANGED <<len, kind, api, p, recv, ended, read, cstate>>

ClientTake ==
  /\ cstate = "run" /\ read < recv /\ read' = read + 1
  /\ UNCHANGED <<len, kind, api, p, recv, ended, broken, cstate>>
ClientEnd ==
  /\ cstate = "run" /\ read = recv /\ ended /\ cstate' = "eof"
  /\ UNCHANGED <<len, kind, api, p, recv, ended, broken, read>>
(* a broken stream: Recv fails (a cancelled context fails it even with data still buffered) *)
ClientBroken ==
  /\ cstate = "run" /\ broken /\ ~(ended /\ kind = "cut")
  /\ (kind = "cut" => read = recv)
  /\ cstate' = IF api = "reader" /\ Variant = "asfound" THEN "eof" ELSE "err"
  /\ UNCHANGED <<len, kind, api, p, recv, ended, broken, read>>

Finished == cstate # "run"
Done == Finished /\ UNCHANGED vars
Next == ServerSend \/ ServerEnd \/ Fault \/ ClientTake \/ ClientEnd \/ ClientBroken \/ Done
Spec == Init /\ [][Next]_vars

(* a read that ends without an error has delivered the whole content *)
ReadIsExact == cstate = "eof" => read = len
Prefix == read <= recv /\ recv <= len

Emit == Finished' /\ ~Finished => PrintT(<<"B", ToJson(<<[len |-> len, kind |-> kind, api |-> api, p |-> p, unit |-> Unit, client |-> cstate', received |-> read']>>)>>)
Cex == PrintT(<<"X", ToJson(<<[len |-> len, kind |-> kind, api |-> api, p |-> p, unit |-> Unit, client |-> cstate, received |-> read]>>)>>)
XReadIsExact == ReadIsExact \/ ~Cex
=============================================================================
