------------------------------ MODULE L0Trace ------------------------------
(***************************************************************************)
(* Direction B, verdict oracle: an execution recorded from the real code   *)
(* (cmd/rnd: one event per API call with its result class, the read matrix *)
(* of every open reader after the call and GetKeys per reader) must be a   *)
(* behaviour of the L0 promise (FsDbAbs).  Sequential histories are        *)
(* deterministic at L0, so the trace specification has exactly one         *)
(* successor per consumed event; an event the promise cannot explain       *)
(* prints REJECT with the reason and ends the behaviour.                   *)
(* Several traces are validated per run, separated by "reset" events.      *)
(***************************************************************************)
EXTENDS FsDbAbs, Json

CONSTANTS TraceFile, AllowedDev

Trace == ndJsonDeserialize(TraceFile)

VARIABLES g, l, dev
vars == <<g, l, dev>>

Init == g = GInit /\ l = 1 /\ dev = FALSE

LateOps == {"lset", "ldel", "lget", "lkeys", "lcommit", "lrollback"}

(* what the promise says the call returns, evaluated in the state before the call *)
Expected(e) ==
  CASE e.op \in {"set", "del"}      -> "ok"
    [] e.op = "emptyset"            -> "emptykey"
    [] e.op = "begin"               -> "ok"
    [] e.op = "commit"              -> IF GConflict(g, e.t) THEN "serr" ELSE "ok"
    [] e.op \in {"rollback", "lrollback", "gc", "reopen", "reset"} -> "ok"
    [] OTHER                        -> "txnotfound"

WellFormed(e) ==
  CASE e.op \in {"set", "del", "emptyset"} -> e.t = MainTx \/ e.t \in GOpen(g)
    [] e.op = "begin"                       -> e.t \notin GOpen(g) /\ e.t \notin g.ended
    [] e.op \in {"commit", "rollback"}      -> e.t \in GOpen(g)
    [] e.op \in LateOps                     -> e.t \in g.ended
    [] OTHER                                -> TRUE

After(e) ==
  CASE e.op = "set"      -> GWrite(g, e.t, e.k, e.c)
    [] e.op = "del"      -> GWrite(g, e.t, e.k, -1)
    [] e.op = "begin"    -> GBegin(g, e.t, e.l)
    [] e.op = "commit"   -> GCommit(g, e.t)
    [] e.op = "rollback" -> GRollback(g, e.t)
    [] e.op = "reopen"   -> GReopen(g)
    [] e.op = "reset"    -> GInit
    [] OTHER             -> g

(* the recorded defect: a write through an ended handle is accepted (known_findings.json, "latewrite") *)
IsLateWrite(e) == e.op \in {"lset", "ldel"} /\ e.res = "ok" /\ "latewrite" \in AllowedDev

Excused(h, d, t) == d /\ t # MainTx /\ t \in GOpen(h) /\ h.tx[t].level = "RU"

ReadOK(h, d, o) ==
  LET want == GRead(h, o.t, o.k)
  IN \/ Excused(h, d, o.t)
     \/ (want = 0 /\ Len(o.vs) = 0)
     \/ (want # 0 /\ \E j \in 1..Len(o.vs) : o.vs[j] = want)

KeysOK(h, d, ko) ==
  \/ Excused(h, d, ko.t)
  \/ (ko.err = "" /\ ko.sorted /\ {ko.ks[j] : j \in 1..Len(ko.ks)} = GKeys(h, ko.t))

Why(e, h, d) ==
  IF ~WellFormed(e) THEN <<"malformed event">>
  ELSE IF e.res # Expected(e) /\ ~IsLateWrite(e) THEN <<"result", e.op, e.t, "returned", e.res, "promise", Expected(e)>>
  ELSE IF \E i \in 1..Len(e.obs) : ~ReadOK(h, d, e.obs[i])
       THEN LET i == CHOOSE i \in 1..Len(e.obs) : ~ReadOK(h, d, e.obs[i])
            IN <<"read", "after", e.op, "reader", e.obs[i].t, "key", e.obs[i].k, "got", e.obs[i].vs, "promise", GRead(h, e.obs[i].t, e.obs[i].k)>>
  ELSE IF \E i \in 1..Len(e.keys) : ~KeysOK(h, d, e.keys[i])
       THEN LET i == CHOOSE i \in 1..Len(e.keys) : ~KeysOK(h, d, e.keys[i])
            IN <<"getkeys", "after", e.op, "reader", e.keys[i].t, "got", e.keys[i].ks, e.keys[i].err, "sorted", e.keys[i].sorted, "promise", GKeys(h, e.keys[i].t)>>
  ELSE IF /\ e.op \in {"gc", "reopen"} /\ GOpen(h) = {} /\ ~d /\ e.nf >= 0
          /\ e.nf # Cardinality(GKeys(h, MainTx))
       THEN <<"files", "after", e.op, "at quiescence the roots hold", e.nf, "content files for", Cardinality(GKeys(h, MainTx)), "readable keys">>
  ELSE <<>>

Next ==
  /\ l <= Len(Trace)
  /\ LET e == Trace[l]
         h == After(e)
         d == IF e.op \in {"reopen", "reset"} THEN FALSE ELSE (dev \/ IsLateWrite(e))
         why == Why(e, h, d)
     IN IF why = <<>>
        THEN g' = h /\ dev' = d /\ l' = l + 1
        ELSE PrintT(<<"REJECT", ToJson([l |-> l, why |-> why])>>) /\ FALSE

Spec == Init /\ [][Next]_vars

Accepted == l = Len(Trace) + 1
(* cfg: POSTCONDITION is not usable for a per-state fact, so acceptance is an invariant of the last state: *)
(* the orchestrator reads "distinct states found" = Len(Trace) + 1 and the absence of a REJECT line.      *)
=============================================================================
