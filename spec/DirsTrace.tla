------------------------------ MODULE DirsTrace ------------------------------
(***************************************************************************)
(* Direction B for C17: the walk of the storage roots recorded by cmd/rnd  *)
(* after every API call (new directories, directory of every added and     *)
(* removed content file, anything outside root/<uuid>/<file>) must be a    *)
(* behaviour of Dirs.tla.  Which offered directory received a file is      *)
(* random in the code and is read from the trace; how many directories are *)
(* created, when, in which root, and which directories are offered is      *)
(* decided by the specification.                                           *)
(***************************************************************************)
EXTENDS Dirs, Json

CONSTANTS TraceFile

Trace == ndJsonDeserialize(TraceFile)

VARIABLES l, lost, mech,
          starve    \* directory -> [n: consecutive writes that went elsewhere while it had room, k: most directories with room at once meanwhile]
(* mech: the recorded walk has followed the mechanism of Dirs.tla so far. When the code creates or offers        *)
(* directories differently (a refactoring may), that is DRIFT: it is printed and the mechanism is no longer     *)
(* compared for this execution, while what C17 promises -- layout, bound, no entry elsewhere -- still is.       *)
vars == <<dvars, l, lost, mech, starve>>

Init == DInit /\ l = 1 /\ lost = FALSE /\ mech = TRUE /\ starve = Fn({}, LAMBDA x : [n |-> 0, k |-> 0])

RECURSIVE RemoveAll(_, _, _)
(* apply the removals one by one: returns <<ok, cnt, active>> *)
RemoveAll(rem, c, act) ==
  IF rem = <<>> THEN <<TRUE, c, act>>
  ELSE LET d == Head(rem)
       IN IF d \notin DOMAIN c \/ c[d] <= 0 THEN <<FALSE, c, act>>
          ELSE RemoveAll(Tail(rem), Fn(DOMAIN c, LAMBDA x : IF x = d THEN c[x] - 1 ELSE c[x]), act \cup {d})

NewsRoot(fs) == Fn({fs.newdirs[i][2] : i \in 1..Len(fs.newdirs)},
                   LAMBDA n : fs.newdirs[CHOOSE i \in 1..Len(fs.newdirs) : fs.newdirs[i][2] = n][1])

Reject(why) == PrintT(<<"REJECT", ToJson([l |-> l, why |-> why])>>) /\ FALSE
Drift(why) == PrintT(<<"DRIFT", ToJson([l |-> l, why |-> why])>>)

(* the counts after a write into d with the new directories `news`, whatever the mechanism says about who is offered *)
CountsAfter(d, news) ==
  LET all == Dirs \cup DOMAIN news \cup {d}
  IN Fn(all, LAMBDA x : (IF x \in Dirs THEN cnt[x] ELSE 0) + (IF x = d THEN 1 ELSE 0))

(* "directories that regain room are used again": the code picks uniformly among the directories it offers, and it  *)
(* offers every directory that has room (a full one comes back when the cleaner takes a file out of it).  A directory *)
(* that had room during n consecutive writes, with at most k directories having room at the same time, and received  *)
(* none of them, was passed over with probability (1 - 1/k)^n; beyond n = 30 k (< 1e-13) it is not being offered.      *)
WithRoom(news) == {x \in Dirs : cnt[x] < Limit} \cup DOMAIN news
StarveAfter(d, news) ==
  LET room == WithRoom(news)
      k == Cardinality(room)
      old(x) == IF x \in DOMAIN starve THEN starve[x] ELSE [n |-> 0, k |-> 0]
  IN Fn(Dirs \cup DOMAIN news \cup {d},
        LAMBDA x : IF x = d \/ x \notin room THEN [n |-> 0, k |-> 0]
                   ELSE [n |-> old(x).n + 1, k |-> IF old(x).k > k THEN old(x).k ELSE k])
Starved(st) == {x \in DOMAIN st : st[x].n > 30 * st[x].k /\ st[x].k > 0}

Next ==
  /\ l <= Len(Trace)
  /\ LET e == Trace[l] IN
     IF e.op = "reset" THEN
        /\ active' = {} /\ rootOf' = Fn({}, LAMBDA x : 0) /\ cnt' = Fn({}, LAMBDA x : 0) /\ written' = FALSE
        /\ steps' = steps /\ l' = l + 1 /\ lost' = FALSE /\ mech' = TRUE
        /\ starve' = Fn({}, LAMBDA x : [n |-> 0, k |-> 0])
     ELSE IF "res" \in DOMAIN e /\ e.res = "hang" THEN Reject(<<"the call did not return", e.op>>)
     ELSE IF "res" \in DOMAIN e /\ e.op = "set" /\ e.res = "nospace"
          THEN Reject(<<"a write found no directory to write to on roots with room (every root always offers one)">>)
     ELSE IF lost \/ "fs" \notin DOMAIN e \/ Len(e.fs.added) > 1 THEN
        \* the walk was not taken at quiescence (a stranded cleaner job): the rest of this trace is not judged
        /\ UNCHANGED <<dvars, mech, starve>> /\ l' = l + 1 /\ lost' = TRUE
     ELSE LET fs == e.fs IN
        IF Len(fs.stray) > 0 THEN Reject(<<"entries outside root/<uuid-dir>/<file>", fs.stray>>)
        ELSE IF Len(fs.added) = 1 THEN
           LET d == fs.added[1]
               news == NewsRoot(fs)
               c2 == CountsAfter(d, news)
               follows == /\ mech
                          /\ \A r \in Roots : Cardinality({n \in DOMAIN news : news[n] = r}) = Expect(r)
                          /\ d \in ((active \ Full(active, cnt)) \cup DOMAIN news)
           IN IF d \notin (Dirs \cup DOMAIN news)
              THEN Reject(<<"file placed in a directory that was never created", d>>)
              ELSE IF c2[d] > Limit
              THEN Reject(<<"directory", d, "holds", c2[d], "entries after this write, limit", Limit>>)
              ELSE IF Starved(StarveAfter(d, news)) # {}
              THEN LET x == CHOOSE x \in Starved(StarveAfter(d, news)) : TRUE
                   IN Reject(<<"directory", x, "has room", cnt[x], "of", Limit, "and was passed over by", StarveAfter(d, news)[x].n,
                               "consecutive writes with at most", StarveAfter(d, news)[x].k, "directories to choose from">>)
              ELSE /\ starve' = StarveAfter(d, news)
                   /\ IF follows
                      THEN WriteTo(d, news) /\ mech' = TRUE
                      ELSE /\ (mech => Drift(<<"directories created", fs.newdirs, "the mechanism expects per root", [r \in Roots |-> Expect(r)],
                                                "file in", d, "offered", (active \ Full(active, cnt)) \cup DOMAIN news>>))
                           /\ mech' = FALSE /\ cnt' = c2 /\ written' = TRUE
                           /\ rootOf' = Fn(DOMAIN c2, LAMBDA x : IF x \in Dirs THEN rootOf[x] ELSE IF x \in DOMAIN news THEN news[x] ELSE 0)
                           /\ active' = active
                   /\ steps' = steps /\ l' = l + 1 /\ lost' = FALSE
        ELSE LET act0 == IF e.op = "reopen" THEN Dirs ELSE active
                 r == RemoveAll(fs.removed, cnt, act0)
             IN IF ~r[1] THEN Reject(<<"removed a file from a directory that holds none", fs.removed>>)
                ELSE /\ cnt' = r[2] /\ active' = r[3]
                     /\ (IF Len(fs.newdirs) > 0 /\ mech THEN Drift(<<"directories created without a write", fs.newdirs>>) ELSE TRUE)
                     /\ mech' = (mech /\ Len(fs.newdirs) = 0)
                     /\ rootOf' = IF Len(fs.newdirs) = 0 THEN rootOf
                                   ELSE Fn(Dirs \cup DOMAIN NewsRoot(fs), LAMBDA x : IF x \in Dirs THEN rootOf[x] ELSE NewsRoot(fs)[x])
                     /\ UNCHANGED <<written, starve>>
                     /\ steps' = steps /\ l' = l + 1 /\ lost' = FALSE

Spec == Init /\ [][Next]_vars
=============================================================================
