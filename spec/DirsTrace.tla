------------------------------ MODULE DirsTrace ------------------------------
(***************************************************************************)
(* Direction B for C17: the walk of the storage roots recorded by cmd/rnd  *)
(* after every API call (new directories, directory of every added and     *)
(* removed content file, anything outside root/<uuid>/<file>) must be a    *)
(* behaviour of Dirs.tla.  Which offered directory received a file is      *)
(* random in the code and is read from the trace; how many directories are *)
(* created, when, in which root, and which directories are offered is      *)
(* decided by the specification.                                           *)
(***************************************************************************)
EXTENDS Dirs, Json

CONSTANTS TraceFile

Trace == ndJsonDeserialize(TraceFile)

VARIABLES l, lost
vars == <<dvars, l, lost>>

Init == DInit /\ l = 1 /\ lost = FALSE

RECURSIVE RemoveAll(_, _, _)
(* apply the removals one by one: returns <<ok, cnt, active>> *)
RemoveAll(rem, c, act) ==
  IF rem = <<>> THEN <<TRUE, c, act>>
  ELSE LET d == Head(rem)
       IN IF d \notin DOMAIN c \/ c[d] <= 0 THEN <<FALSE, c, act>>
          ELSE RemoveAll(Tail(rem), Fn(DOMAIN c, LAMBDA x : IF x = d THEN c[x] - 1 ELSE c[x]), act \cup {d})

NewsOf(fs) == Fn({fs.newdirs[i][2] : i \in 1..Len(fs.newdirs)},
                 LAMBDA n : (CHOOSE i \in 1..Len(fs.newdirs) : fs.newdirs[i][2] = n) )
NewsRoot(fs) == Fn({fs.newdirs[i][2] : i \in 1..Len(fs.newdirs)},
                   LAMBDA n : fs.newdirs[CHOOSE i \in 1..Len(fs.newdirs) : fs.newdirs[i][2] = n][1])

Reject(why) == PrintT(<<"REJECT", ToJson([l |-> l, why |-> why])>>) /\ FALSE

Reset == DInit /\ l' = l + 1 /\ lost' = FALSE

Next ==
  /\ l <= Len(Trace)
  /\ LET e == Trace[l] IN
     IF e.op = "reset" THEN
        /\ active' = {} /\ rootOf' = Fn({}, LAMBDA x : 0) /\ cnt' = Fn({}, LAMBDA x : 0) /\ written' = FALSE
        /\ steps' = steps /\ l' = l + 1 /\ lost' = FALSE
     ELSE IF lost \/ "fs" \notin DOMAIN e \/ Len(e.fs.added) > 1 THEN
        \* the walk was not taken at quiescence (a stranded cleaner job): the rest of this trace is not judged
        /\ UNCHANGED dvars /\ l' = l + 1 /\ lost' = TRUE
     ELSE LET fs == e.fs IN
        IF Len(fs.stray) > 0 THEN Reject(<<"entries outside root/<uuid-dir>/<file>", fs.stray>>)
        ELSE IF Len(fs.added) = 1 THEN
           LET d == fs.added[1]
               news == NewsRoot(fs)
           IN IF ~(\A r \in Roots : Cardinality({n \in DOMAIN news : news[n] = r}) = Expect(r))
              THEN Reject(<<"directories created", fs.newdirs, "specification expects per root", [r \in Roots |-> Expect(r)]>>)
              ELSE IF d \notin ((active \ Full(active, cnt)) \cup DOMAIN news)
              THEN Reject(<<"file placed in directory", d, "which is not offered; offered", (active \ Full(active, cnt)) \cup DOMAIN news, "counts", cnt>>)
              ELSE /\ WriteTo(d, news)
                   /\ IF cnt'[d] > Limit THEN Reject(<<"directory", d, "holds", cnt'[d], "entries, limit", Limit>>) ELSE TRUE
                   /\ IF Len(fs.removed) > 0 THEN Reject(<<"files removed in a writing step">>) ELSE TRUE
                   /\ steps' = steps /\ l' = l + 1 /\ lost' = FALSE
        ELSE IF Len(fs.newdirs) > 0 THEN Reject(<<"directories created without a write", fs.newdirs>>)
        ELSE LET act0 == IF e.op = "reopen" THEN Dirs ELSE active
                 r == RemoveAll(fs.removed, cnt, act0)
             IN IF ~r[1] THEN Reject(<<"removed a file from a directory that holds none", fs.removed>>)
                ELSE /\ cnt' = r[2] /\ active' = r[3]
                     /\ UNCHANGED <<rootOf, written>>
                     /\ steps' = steps /\ l' = l + 1 /\ lost' = FALSE

Spec == Init /\ [][Next]_vars
=============================================================================
