------------------------------ MODULE FsDbConc ------------------------------
(***************************************************************************)
(* L2 -- the concurrent core of fs_db at the grain of the code: one action *)
(* per segment between two observation points (gates) of one goroutine,    *)
(* which is exactly what the controlled scheduler of the harness executes  *)
(* in one step.  A behaviour of this specification is therefore a schedule *)
(* (one actor name per step) that `cmd/conc -mode sched` replays on the    *)
(* real code; TLC counterexamples become deterministic reproductions.      *)
(*                                                                         *)
(* Actors (each optional, chosen by the constants):                        *)
(*   C1, C2  Commit of a transaction that has begun and written its write  *)
(*           set before (usecase/transaction/commit.go, core/update_tx.go, *)
(*           as repaired: conflict test and publication under one lock)    *)
(*   R       Begin of a snapshot transaction, then Get of every key twice  *)
(*           (begin.go, store/get.go, core/get.go)                         *)
(*   W       autocommit Set of key WKey (store/set.go, core/store.go)      *)
(*   A       autocommit Get of key WKey                                    *)
(*   G       one collector pass (cleaner/delete_old.go, core/delete_old.go,*)
(*           cleaner/delete_files.go)                                      *)
(* Locks kept across a gate: the main store + all-store by a committer     *)
(* (utx.p1 .. utx.unlink) and by a writer (core.store.lock .. return).     *)
(* A step that needs a held lock is not enabled (the real goroutine would  *)
(* block), so every behaviour is replayable without blocked actors.        *)
(***************************************************************************)
EXTENDS Integers, Sequences, FiniteSets, TLC, Json

CONSTANTS Keys,        \* e.g. {1, 2}
          WS1, WS2,    \* write sets of the two committers ({} = the committer does not exist)
          L1, L2,      \* their levels: "RC" | "RR"
          WithR, WithW, WithA, WithG,
          WKey,        \* key of the autocommit writer and reader
          OldVersions, \* committed versions per key before the actors start (>= 1)
          ContentGuard,\* TRUE: readers hold model.ContentGuard shared from the version lookup to the open, the cleaner exclusively per content
          HorizonLock, \* TRUE: Begin (draw + register) and the collector (oldest, else fresh draw) exclude each other (sequence.Horizon)
          RangeDraw    \* TRUE: a commit draws its publishing numbers in one step (sequence.NextN); FALSE: one draw per key (as found)

VARIABLES seq, main, crec, files,       \* counter, committed versions per key (<<[seq, val]>>), content records, content files
          reg, regOrder,                \* registry: tx -> begin seq, and its order
          lock,                         \* holder of the main-store write lock ("" free)
          pc,                           \* actor -> gate it is parked at ("start", ..., "done")
          loc,                          \* actor -> local variables
          res,                          \* actor -> results so far
          cmlog,                        \* ghost: commits/autocommit writes in publication order: [ks, val]
          sched                         \* the schedule (history for the replay)

vars == <<seq, main, crec, files, reg, regOrder, lock, pc, loc, res, cmlog, sched>>

Fn(S, Op(_)) == TLCEval([x \in S |-> Op(x)])
Last(s) == s[Len(s)]
Committers == {c \in {"C1", "C2"} : (IF c = "C1" THEN WS1 ELSE WS2) # {}}
WS(c) == IF c = "C1" THEN WS1 ELSE WS2
Lvl(c) == IF c = "C1" THEN L1 ELSE L2
TxOf(c) == IF c = "C1" THEN 1 ELSE 2
RTx == 3
ValOf(c) == IF c = "C1" THEN 100 ELSE 200        \* every version has a value of its own; a value names its content
WVal == 300
Actors == Committers \cup (IF WithR THEN {"R"} ELSE {}) \cup (IF WithW THEN {"W"} ELSE {}) \cup (IF WithA THEN {"A"} ELSE {}) \cup (IF WithG THEN {"G"} ELSE {})

KeySeq == CHOOSE f \in [1..Cardinality(Keys) -> Keys] : \A i, j \in 1..Cardinality(Keys) : i < j => f[i] < f[j]
NK == Cardinality(Keys)
WSeq(c) == CHOOSE f \in [1..Cardinality(WS(c)) -> WS(c)] : \A i, j \in 1..Cardinality(WS(c)) : i < j => f[i] < f[j]

(* setup, executed sequentially before the actors start: OldVersions autocommit writes per key (values 1..), then the *)
(* committers begin (C1 first) and write their write sets                                                             *)
InitMain == Fn(Keys, LAMBDA k : [i \in 1..OldVersions |-> [seq |-> 1 + (k - 1) * OldVersions + i, val |-> 10 * k + i]])
Seq0 == 1 + NK * OldVersions
BSeq(c) == Seq0 + (IF c = "C1" \/ "C1" \notin Committers THEN 1 ELSE 2)
SeqAfterSetup == Seq0 + Cardinality(Committers) + Cardinality(WS1) + Cardinality(WS2)

Init ==
  /\ seq = SeqAfterSetup
  /\ main = InitMain
  /\ crec = UNION {{main[k][i].val : i \in 1..Len(main[k])} : k \in Keys} \cup {ValOf(c) : c \in Committers}
  /\ files = crec
  /\ reg = Fn({TxOf(c) : c \in Committers}, LAMBDA t : IF t = 1 THEN BSeq("C1") ELSE BSeq("C2"))
  /\ regOrder = IF Committers = {"C1", "C2"} THEN <<1, 2>> ELSE IF Committers = {"C1"} THEN <<1>> ELSE IF Committers = {"C2"} THEN <<2>> ELSE <<>>
  /\ lock = ""
  /\ pc = Fn(Actors, LAMBDA a : "start")
  /\ loc = Fn(Actors, LAMBDA a : [i |-> 0, conflict |-> FALSE, bseq |-> 0, h |-> 0, ver |-> 0, dead |-> <<>>, rk |-> 0, seen |-> {}])
  /\ res = Fn(Actors, LAMBDA a : <<>>)
  /\ cmlog = <<>> /\ sched = <<>>

LatestSeq(k) == IF main[k] = <<>> THEN 0 ELSE Last(main[k]).seq
LastBeforeVal(s, b) ==
  LET idx == {i \in 1..Len(s) : s[i].seq < b}
  IN IF idx = {} THEN 0 ELSE s[CHOOSE i \in idx : \A j \in idx : j <= i].val
LatestVal(k) == IF main[k] = <<>> THEN 0 ELSE Last(main[k]).val

Go(a, to) == pc' = [pc EXCEPT ![a] = to] /\ sched' = Append(sched, a)
SetLoc(a, f, v) == loc' = [loc EXCEPT ![a][f] = v]
Ret(a, x) == res' = [res EXCEPT ![a] = Append(@, x)]
(* an autocommit Get in progress sees every value the key takes *)
Touch(k, v) == IF WithA /\ k = WKey /\ pc["A"] \notin {"start", "done"} THEN [loc EXCEPT !["A"].seen = @ \cup {v}] ELSE loc

(* ======================= committer ======================= *)
CStep(c) ==
  LET t == TxOf(c) n == Cardinality(WS(c)) IN
  \/ /\ pc[c] = "start" /\ Go(c, "reg.delete") /\ UNCHANGED <<seq, main, crec, files, reg, regOrder, lock, loc, res, cmlog>>
  \/ /\ pc[c] = "reg.delete" /\ Go(c, "commit.afterRegDelete")
     /\ reg' = Fn(DOMAIN reg \ {t}, LAMBDA u : reg[u]) /\ regOrder' = SelectSeq(regOrder, LAMBDA u : u # t)
     /\ UNCHANGED <<seq, main, crec, files, lock, loc, res, cmlog>>
  \/ /\ pc[c] = "commit.afterRegDelete" /\ Go(c, "utx.enter") /\ UNCHANGED <<seq, main, crec, files, reg, regOrder, lock, loc, res, cmlog>>
  \/ /\ pc[c] = "utx.enter" /\ Go(c, "utx.p1") /\ UNCHANGED <<seq, main, crec, files, reg, regOrder, lock, loc, res, cmlog>>
  \/ \* lock, conflict test of the first key, arrive at its sequence draw
     /\ pc[c] = "utx.p1" /\ lock = "" /\ lock' = c /\ Go(c, "p1.draw")
     /\ loc' = [loc EXCEPT ![c].i = 1, ![c].conflict = (Lvl(c) = "RR" /\ LatestSeq(WSeq(c)[1]) > BSeq(c))]
     /\ UNCHANGED <<seq, main, crec, files, reg, regOrder, res, cmlog>>
  \/ \* the draw of key i; then the conflict test of key i+1, or the end of the first loop
     /\ pc[c] = "p1.draw" /\ seq' = seq + 1
     /\ IF loc[c].i < n
        THEN /\ Go(c, "p1.draw")
             /\ loc' = [loc EXCEPT ![c].i = @ + 1,
                                   ![c].conflict = (@ \/ (Lvl(c) = "RR" /\ LatestSeq(WSeq(c)[loc[c].i + 1]) > BSeq(c)))]
        ELSE Go(c, "utx.between") /\ SetLoc(c, "i", 0)
     /\ UNCHANGED <<main, crec, files, reg, regOrder, lock, res, cmlog>>
  \/ /\ pc[c] = "utx.between"
     /\ IF loc[c].conflict THEN Go(c, "utx.unlink") /\ SetLoc(c, "i", -1)       \* early return, the deferred function is next
                           ELSE Go(c, "p2.draw") /\ SetLoc(c, "i", 1)
     /\ UNCHANGED <<seq, main, crec, files, reg, regOrder, lock, res, cmlog>>
  \/ \* RangeDraw: the publishing numbers of all keys are drawn in one step (sequence.NextN), then Badger commit and publication
     /\ RangeDraw /\ pc[c] = "p2.draw" /\ seq' = seq + n
     /\ main' = Fn(Keys, LAMBDA kk : IF kk \in WS(c)
                                     THEN Append(main[kk], [seq |-> seq + (CHOOSE j \in 1..n : WSeq(c)[j] = kk), val |-> ValOf(c)])
                                     ELSE main[kk])
     /\ cmlog' = Append(cmlog, [ks |-> WS(c), val |-> ValOf(c)])
     /\ Go(c, "utx.unlink") /\ loc' = Touch(WKey, IF WKey \in WS(c) THEN ValOf(c) ELSE LatestVal(WKey))
     /\ UNCHANGED <<crec, files, reg, regOrder, lock, res>>
  \/ \* as found: publishing draw of key i; after the last one: Badger commit and publication, all in this segment
     /\ ~RangeDraw /\ pc[c] = "p2.draw" /\ seq' = seq + 1
     /\ LET k == WSeq(c)[loc[c].i]
            m1 == [main EXCEPT ![k] = Append(@, [seq |-> seq + 1, val |-> ValOf(c)])]
        IN IF loc[c].i < n
           THEN /\ Go(c, "p2.draw") /\ main' = main /\ cmlog' = cmlog
                /\ loc' = [loc EXCEPT ![c].i = @ + 1, ![c].dead = Append(@, seq + 1)]
           ELSE LET seqs == Append(loc[c].dead, seq + 1)
                IN /\ main' = Fn(Keys, LAMBDA kk : IF kk \in WS(c)
                                                   THEN Append(main[kk], [seq |-> seqs[CHOOSE j \in 1..n : WSeq(c)[j] = kk], val |-> ValOf(c)])
                                                   ELSE main[kk])
                   /\ cmlog' = Append(cmlog, [ks |-> WS(c), val |-> ValOf(c)])
                   /\ Go(c, "utx.unlink") /\ loc' = Touch(WKey, IF WKey \in WS(c) THEN ValOf(c) ELSE LatestVal(WKey))
     /\ UNCHANGED <<crec, files, reg, regOrder, lock, res>>
  \/ /\ pc[c] = "utx.unlink" /\ lock' = "" /\ Go(c, "done")
     /\ Ret(c, IF loc[c].conflict THEN "serr" ELSE "ok")
     /\ UNCHANGED <<seq, main, crec, files, reg, regOrder, loc, cmlog>>

(* ======================= snapshot reader ======================= *)
RKey == KeySeq[((loc["R"].rk - 1) % NK) + 1]
(* the Get returned v (0 = ErrNotFound): next read, or done after every key was read twice *)
RNext(v) ==
  /\ Ret("R", [k |-> RKey, v |-> v])
  /\ IF loc["R"].rk = 2 * NK THEN Go("R", "done") /\ UNCHANGED loc
     ELSE Go("R", "reg.get") /\ loc' = [loc EXCEPT !["R"].rk = @ + 1]

(* sequence.Horizon, derived from the gates the two actors are parked at while they hold it *)
HeldByR == HorizonLock /\ WithR /\ pc["R"] \in {"seq.next", "reg.store"}
HeldByG == HorizonLock /\ WithG /\ pc["G"] \in {"reg.oldest", "g.draw"}

(* model.ContentGuard, derived from the gates the actors are parked at while they hold it *)
ReadersHold == ContentGuard /\ ((WithA /\ pc["A"] \in {"lookup1", "lookup2", "get.afterLookup", "get.afterCf"})
                                \/ (WithR /\ pc["R"] \in {"core.get.lookup", "get.afterLookup", "get.afterCf"}))
CleanerHolds == ContentGuard /\ WithG /\ pc["G"] \in {"clean.beforeRemove", "clean.beforeCfDelete", "clean.beforeFDelete"}

RStep ==
  \/ /\ pc["R"] = "start" /\ Go("R", "begin.enter") /\ UNCHANGED <<seq, main, crec, files, reg, regOrder, lock, loc, res, cmlog>>
  \/ /\ pc["R"] = "begin.enter" /\ ~HeldByG /\ Go("R", "seq.next") /\ UNCHANGED <<seq, main, crec, files, reg, regOrder, lock, loc, res, cmlog>>
  \/ /\ pc["R"] = "seq.next" /\ seq' = seq + 1 /\ Go("R", "reg.store")
     /\ loc' = [loc EXCEPT !["R"].bseq = seq + 1, !["R"].h = Len(cmlog)]          \* h: publications before the draw (ghost)
     /\ UNCHANGED <<main, crec, files, reg, regOrder, lock, res, cmlog>>
  \/ /\ pc["R"] = "reg.store" /\ Go("R", "reg.get")
     /\ reg' = Fn(DOMAIN reg \cup {RTx}, LAMBDA u : IF u = RTx THEN loc["R"].bseq ELSE reg[u]) /\ regOrder' = Append(regOrder, RTx)
     /\ SetLoc("R", "rk", 1)
     /\ UNCHANGED <<seq, main, crec, files, lock, res, cmlog>>
  \/ /\ pc["R"] = "reg.get" /\ ~CleanerHolds /\ Go("R", "core.get.lookup") /\ UNCHANGED <<seq, main, crec, files, reg, regOrder, lock, loc, res, cmlog>>
  \/ \* the version lookup under the main read lock
     /\ pc["R"] = "core.get.lookup" /\ lock = ""
     /\ LET v == LastBeforeVal(main[RKey], loc["R"].bseq)
        IN IF v = 0 THEN RNext(0) ELSE Go("R", "get.afterLookup") /\ SetLoc("R", "ver", v) /\ UNCHANGED res
     /\ UNCHANGED <<seq, main, crec, files, reg, regOrder, lock, cmlog>>
  \/ /\ pc["R"] = "get.afterLookup"
     /\ IF loc["R"].ver \in crec THEN Go("R", "get.afterCf") /\ UNCHANGED <<loc, res>> ELSE RNext(0)
     /\ UNCHANGED <<seq, main, crec, files, reg, regOrder, lock, cmlog>>
  \/ /\ pc["R"] = "get.afterCf"
     /\ RNext(IF loc["R"].ver \in files THEN loc["R"].ver ELSE 0)
     /\ UNCHANGED <<seq, main, crec, files, reg, regOrder, lock, cmlog>>

(* ======================= autocommit writer ======================= *)
WStep ==
  \/ /\ pc["W"] = "start" /\ Go("W", "set.afterContent") /\ files' = files \cup {WVal}
     /\ UNCHANGED <<seq, main, crec, reg, regOrder, lock, loc, res, cmlog>>
  \/ /\ pc["W"] = "set.afterContent" /\ Go("W", "core.store") /\ crec' = crec \cup {WVal}
     /\ UNCHANGED <<seq, main, files, reg, regOrder, lock, loc, res, cmlog>>
  \/ /\ pc["W"] = "core.store" /\ Go("W", "core.store.lock") /\ UNCHANGED <<seq, main, crec, files, reg, regOrder, lock, loc, res, cmlog>>
  \/ /\ pc["W"] = "core.store.lock" /\ lock = "" /\ lock' = "W" /\ Go("W", "w.draw")
     /\ UNCHANGED <<seq, main, crec, files, reg, regOrder, loc, res, cmlog>>
  \/ /\ pc["W"] = "w.draw" /\ seq' = seq + 1 /\ lock' = "" /\ Go("W", "done")
     /\ main' = [main EXCEPT ![WKey] = Append(@, [seq |-> seq + 1, val |-> WVal])]
     /\ cmlog' = Append(cmlog, [ks |-> {WKey}, val |-> WVal])
     /\ loc' = Touch(WKey, WVal) /\ Ret("W", "ok")
     /\ UNCHANGED <<crec, files, reg, regOrder>>

(* ======================= autocommit reader ======================= *)
AStep ==
  \/ /\ pc["A"] = "start" /\ Go("A", "reg.get") /\ SetLoc("A", "seen", {LatestVal(WKey)})
     /\ UNCHANGED <<seq, main, crec, files, reg, regOrder, lock, res, cmlog>>
  \/ /\ pc["A"] = "reg.get" /\ ~CleanerHolds /\ Go("A", "lookup1") /\ UNCHANGED <<seq, main, crec, files, reg, regOrder, lock, loc, res, cmlog>>
  \/ \* own store = main store, then the main store again: the newer of two lookups
     /\ pc["A"] = "lookup1" /\ lock = "" /\ Go("A", "lookup2") /\ SetLoc("A", "ver", LatestVal(WKey))
     /\ UNCHANGED <<seq, main, crec, files, reg, regOrder, lock, res, cmlog>>
  \/ /\ pc["A"] = "lookup2" /\ lock = "" /\ Go("A", "get.afterLookup") /\ SetLoc("A", "ver", LatestVal(WKey))
     /\ UNCHANGED <<seq, main, crec, files, reg, regOrder, lock, res, cmlog>>
  \/ /\ pc["A"] = "get.afterLookup"
     /\ IF loc["A"].ver \in crec THEN Go("A", "get.afterCf") /\ UNCHANGED res ELSE Go("A", "done") /\ Ret("A", 0)
     /\ UNCHANGED <<seq, main, crec, files, reg, regOrder, lock, loc, cmlog>>
  \/ /\ pc["A"] = "get.afterCf" /\ Go("A", "done") /\ Ret("A", IF loc["A"].ver \in files THEN loc["A"].ver ELSE 0)
     /\ UNCHANGED <<seq, main, crec, files, reg, regOrder, lock, loc, cmlog>>

(* ======================= collector ======================= *)
RECURSIVE NCollect(_, _)
NCollect(s, hh) == IF Len(s) >= 2 /\ s[2].seq <= hh THEN 1 + NCollect(Tail(s), hh) ELSE 0
RECURSIVE DeadList(_)
DeadList(ks) == IF ks = <<>> THEN <<>>
                ELSE LET k == Head(ks) n == NCollect(main[k], loc["G"].h)
                     IN [i \in 1..n |-> main[k][i].val] \o DeadList(Tail(ks))
GStep ==
  \/ /\ pc["G"] = "start" /\ ~HeldByR /\ Go("G", "reg.oldest") /\ UNCHANGED <<seq, main, crec, files, reg, regOrder, lock, loc, res, cmlog>>
  \/ \* read the registry
     /\ pc["G"] = "reg.oldest"
     /\ IF regOrder = <<>> THEN Go("G", "g.draw") /\ UNCHANGED loc
        ELSE Go("G", "gc.horizon") /\ SetLoc("G", "h", reg[Head(regOrder)])
     /\ UNCHANGED <<seq, main, crec, files, reg, regOrder, lock, res, cmlog>>
  \/ /\ pc["G"] = "g.draw" /\ seq' = seq + 1 /\ Go("G", "gc.horizon") /\ SetLoc("G", "h", seq + 1)
     /\ UNCHANGED <<main, crec, files, reg, regOrder, lock, res, cmlog>>
  \/ /\ pc["G"] = "gc.horizon" /\ Go("G", "core.deleteOld") /\ UNCHANGED <<seq, main, crec, files, reg, regOrder, lock, loc, res, cmlog>>
  \/ /\ pc["G"] = "core.deleteOld" /\ Go("G", "core.deleteOld.lock") /\ UNCHANGED <<seq, main, crec, files, reg, regOrder, lock, loc, res, cmlog>>
  \/ \* lock, collect, unlock
     /\ pc["G"] = "core.deleteOld.lock" /\ lock = ""
     /\ LET dead == DeadList([i \in 1..NK |-> KeySeq[i]])
        IN /\ main' = Fn(Keys, LAMBDA k : SubSeq(main[k], NCollect(main[k], loc["G"].h) + 1, Len(main[k])))
           /\ SetLoc("G", "dead", dead)
           /\ Go("G", IF dead = <<>> THEN "done" ELSE "clean.file")
     /\ UNCHANGED <<seq, crec, files, reg, regOrder, lock, res, cmlog>>
  \/ /\ pc["G"] = "clean.file" /\ ~ReadersHold /\ Go("G", "clean.beforeRemove") /\ UNCHANGED <<seq, main, crec, files, reg, regOrder, lock, loc, res, cmlog>>
  \/ /\ pc["G"] = "clean.beforeRemove" /\ files' = files \ {Head(loc["G"].dead)} /\ Go("G", "clean.beforeCfDelete")
     /\ UNCHANGED <<seq, main, crec, reg, regOrder, lock, loc, res, cmlog>>
  \/ /\ pc["G"] = "clean.beforeCfDelete" /\ crec' = crec \ {Head(loc["G"].dead)} /\ Go("G", "clean.beforeFDelete")
     /\ UNCHANGED <<seq, main, files, reg, regOrder, lock, loc, res, cmlog>>
  \/ /\ pc["G"] = "clean.beforeFDelete"
     /\ SetLoc("G", "dead", Tail(loc["G"].dead))
     /\ Go("G", IF Len(loc["G"].dead) > 1 THEN "clean.file" ELSE "done")
     /\ UNCHANGED <<seq, main, crec, files, reg, regOrder, lock, res, cmlog>>

AllDone == \A a \in Actors : pc[a] = "done"
Next ==
  \/ \E c \in Committers : CStep(c)
  \/ (WithR /\ RStep) \/ (WithW /\ WStep) \/ (WithA /\ AStep) \/ (WithG /\ GStep)
  \/ (AllDone /\ UNCHANGED vars)
Spec == Init /\ [][Next]_vars

(* ======================= properties ======================= *)
(* C07: two snapshot committers with intersecting write sets never both succeed *)
FirstCommitterWins ==
  ~(Committers = {"C1", "C2"} /\ L1 = "RR" /\ L2 = "RR" /\ WS1 \cap WS2 # {}
    /\ res["C1"] = <<"ok">> /\ res["C2"] = <<"ok">>)

(* committed value of k after the first p publications *)
RECURSIVE ValAfter(_, _)
ValAfter(k, p) == IF p = 0 THEN Last(InitMain[k]).val
                  ELSE IF k \in cmlog[p].ks THEN cmlog[p].val ELSE ValAfter(k, p - 1)
(* C08: everything the snapshot transaction read is the committed state after one prefix of the publications, *)
(* not older than what was published before it drew its number                                                 *)
ConsistentSnapshot ==
  (WithR /\ pc["R"] = "done") =>
    \E p \in loc["R"].h..Len(cmlog) : \A i \in 1..Len(res["R"]) : res["R"][i].v = ValAfter(res["R"][i].k, p)

(* C06: an autocommit Get returns a value the key held at some moment of the call, never ErrNotFound for a key *)
(* that had a value throughout                                                                                 *)
AtomicRead ==
  (WithA /\ pc["A"] = "done") => res["A"][1] \in loc["A"].seen

(* the hypotheses of proofs/SnapshotProof.tla, checked on this code-grain model (they hold with HorizonLock and RangeDraw,  *)
(* and TLC refutes them without): while the collector works with a horizon it has picked, the horizon is not above the     *)
(* number a snapshot Begin has drawn; the numbers a commit publishes under are not separated by a snapshot's number         *)
HorizonBelowL2 ==
  (WithG /\ WithR /\ pc["G"] \in {"gc.horizon", "core.deleteOld", "core.deleteOld.lock"}
         /\ pc["R"] \notin {"start", "begin.enter", "seq.next"})
    => loc["G"].h <= loc["R"].bseq
DesignHypotheses == (HorizonLock => HorizonBelowL2)

Outcome == [sched |-> sched, res |-> [a \in Actors |-> res[a]]]
Cex == PrintT(<<"X", ToJson(<<Outcome>>)>>)
XFirstCommitterWins == FirstCommitterWins \/ ~Cex
XConsistentSnapshot == ConsistentSnapshot \/ ~Cex
XAtomicRead == AtomicRead \/ ~Cex
EmitEnd == AllDone => PrintT(<<"B", ToJson(<<Outcome>>)>>)
(* one line per transition into a final state (the path of the source state's representative plus the last step) *)
EmitEndA == ((\A a \in Actors : pc'[a] = "done") /\ ~AllDone) =>
              PrintT(<<"B", ToJson(<<[sched |-> sched', res |-> [a \in Actors |-> res'[a]]]>>)>>)

View == <<seq, main, crec, files, reg, regOrder, lock, pc, loc, res, cmlog>>
=============================================================================
