------------------------------ MODULE AsyncRW ------------------------------
(***************************************************************************)
(* C12 -- the pipe behind Create (internal/utils/async/read_writer.go):    *)
(* a writer (Write* then Close) and the storing goroutine (Read until EOF, *)
(* then Done) over a mutex, a condition variable, a `closed` flag and a    *)
(* byte buffer.                                                            *)
(*                                                                         *)
(* One action per segment between two observation points of the code, so   *)
(* that a behaviour of this specification is a schedule the harness can    *)
(* replay step by step on the real readWriter:                             *)
(*   writer:  Write = lock, append, unlock | gate rw.write.beforeSignal |  *)
(*            signal ... ; Close = gate rw.close.enter | set closed | gate *)
(*            rw.close.beforeBroadcast | broadcast | gate beforeWait | wait *)
(*   reader:  Read = lock, test | gate rw.read.beforeWait | cond wait |    *)
(*            (woken) relock | gate rw.read.take | take, unlock, return    *)
(* A goroutine woken by a signal runs to its next gate within the step of  *)
(* the signalling actor (that is how the controlled scheduler sees it).    *)
(*                                                                         *)
(* Variant selects the code: "asfound" = `if` around Wait and `closed` set *)
(* without the mutex; "repaired" = `for` around Wait and `closed` set      *)
(* under the mutex.                                                        *)
(***************************************************************************)
EXTENDS Integers, Sequences, FiniteSets, TLC, Json

CONSTANTS PSet,        \* indices of the write patterns to explore (configuration files cannot hold sequences)
          CapSet,      \* capacities of the reader's buffer per Read
          Variant

(* sizes of the successive Write calls *)
Patterns == << <<>>, <<1>>, <<0>>, <<3>>, <<1, 1>>, <<0, 1>>, <<1, 0>>, <<0, 0>>, <<2, 3>>,
               <<1, 0, 2>>, <<0, 1, 0>>, <<1, 1, 0>>, <<2, 2, 1>>, <<3, 0, 0>>, <<0, 0, 1>>, <<1, 2, 3>> >>


VARIABLES P, Cap,      \* the write pattern and the reader's buffer size of this behaviour (chosen initially)
          buf,         \* bytes written and not yet read (a sequence of byte ids)
          closed, mheld,      \* mutex holder: "" | "R" | "W"
          waiting,     \* the reader is in the condition variable's wait set
          rpc, wpc,    \* program counters
          wi,          \* index of the next write
          nbytes,      \* bytes written so far
          taken,       \* bytes the reader got
          readerDone, closeReturned,
          sched        \* the schedule so far (actor per step): history for the replay

Writes == Patterns[P]

vars == <<P, Cap, buf, closed, mheld, waiting, rpc, wpc, wi, nbytes, taken, readerDone, closeReturned, sched>>

Bytes(from, n) == [i \in 1..n |-> from + i]

Init ==
  /\ P \in PSet /\ Cap \in CapSet
  /\ buf = <<>> /\ closed = FALSE /\ mheld = "" /\ waiting = FALSE
  /\ rpc = "r_start" /\ wpc = "w_start" /\ wi = 1 /\ nbytes = 0 /\ taken = <<>>
  /\ readerDone = FALSE /\ closeReturned = FALSE /\ sched = <<>>

(* ---- the reader's Read up to its next gate: lock, test the condition ---- *)
(* returns the pc the reader parks at, holding the mutex *)
ReadEntry(b, c) == IF ~c /\ b = <<>> THEN "r_beforeWait" ELSE "r_take"

(* the reader starts (or continues with) a Read call *)
REnter ==
  /\ rpc = "r_start" /\ mheld = ""
  /\ mheld' = "R" /\ rpc' = ReadEntry(buf, closed)
  /\ sched' = Append(sched, "R")
  /\ UNCHANGED <<buf, closed, waiting, wpc, wi, nbytes, taken, readerDone, closeReturned>>

(* cv.Wait(): join the wait set and release the mutex, atomically *)
RWait ==
  /\ rpc = "r_beforeWait"
  /\ waiting' = TRUE /\ mheld' = "" /\ rpc' = "r_sleeping"
  /\ sched' = Append(sched, "R")
  /\ UNCHANGED <<buf, closed, wpc, wi, nbytes, taken, readerDone, closeReturned>>

(* what a woken reader does until its next gate: relock, and (repaired) test the condition again *)
WokenPc(b, c) == IF Variant = "repaired" THEN ReadEntry(b, c) ELSE "r_take"

(* take from the buffer, unlock, return to the copy loop, which either ends (EOF) or calls Read again *)
RTake ==
  /\ rpc = "r_take"
  /\ sched' = Append(sched, "R")
  /\ IF buf = <<>>
     THEN \* bytes.Buffer.Read on an empty buffer: (0, io.EOF): the copy loop ends, the storing goroutine calls Done
          /\ readerDone' = TRUE /\ rpc' = "r_done" /\ mheld' = ""
          /\ closeReturned' = (wpc = "c_waiting")       \* a Close waiting for Done returns
          /\ wpc' = IF wpc = "c_waiting" THEN "c_ret" ELSE wpc
          /\ UNCHANGED <<buf, taken, closed, waiting, wi, nbytes>>
     ELSE LET n == IF Len(buf) < Cap THEN Len(buf) ELSE Cap
              rest == SubSeq(buf, n + 1, Len(buf))
          IN /\ taken' = taken \o SubSeq(buf, 1, n)
             /\ buf' = rest
             \* next Read: the mutex is free (the writer never keeps it across a gate), so lock and test
             /\ mheld' = "R" /\ rpc' = ReadEntry(rest, closed)
             /\ UNCHANGED <<closed, waiting, wpc, wi, nbytes, readerDone, closeReturned>>

(* ---- the writer ---- *)
(* Write(p): lock, append, unlock; parks at rw.write.beforeSignal *)
WWrite ==
  /\ wpc = "w_start" /\ wi <= Len(Writes) /\ mheld = ""
  /\ buf' = buf \o Bytes(nbytes, Writes[wi])
  /\ nbytes' = nbytes + Writes[wi]
  /\ wpc' = "w_beforeSignal"
  /\ sched' = Append(sched, "W")
  /\ UNCHANGED <<closed, mheld, waiting, rpc, wi, taken, readerDone, closeReturned>>

(* a wake-up: the reader leaves the wait set, relocks and runs to its next gate *)
Wake(b, c) ==
  IF waiting THEN /\ waiting' = FALSE /\ mheld' = "R" /\ rpc' = WokenPc(b, c)
             ELSE UNCHANGED <<waiting, mheld, rpc>>

(* cv.Signal(), return from Write; the next call of the writer starts: the next Write runs to its gate in a later step *)
WSignal ==
  /\ wpc = "w_beforeSignal"
  /\ Wake(buf, closed)
  /\ wi' = wi + 1
  /\ wpc' = IF wi + 1 <= Len(Writes) THEN "w_start" ELSE "c_enter"
  /\ sched' = Append(sched, "W")
  /\ UNCHANGED <<buf, closed, nbytes, taken, readerDone, closeReturned>>

(* Close with no write at all *)
WNoWrites ==
  /\ wpc = "w_start" /\ wi > Len(Writes)
  /\ wpc' = "c_enter" /\ sched' = sched
  /\ UNCHANGED <<buf, closed, mheld, waiting, rpc, wi, nbytes, taken, readerDone, closeReturned>>

(* Close: rw.closed.Store(true) -- as found without the mutex, repaired under it *)
CStore ==
  /\ wpc = "c_enter"
  /\ Variant = "repaired" => mheld = ""
  /\ closed' = TRUE /\ wpc' = "c_beforeBroadcast"
  /\ sched' = Append(sched, "W")
  /\ UNCHANGED <<buf, mheld, waiting, rpc, wi, nbytes, taken, readerDone, closeReturned>>

CBroadcast ==
  /\ wpc = "c_beforeBroadcast"
  /\ Wake(buf, closed)
  /\ wpc' = "c_beforeWait"
  /\ sched' = Append(sched, "W")
  /\ UNCHANGED <<buf, closed, wi, nbytes, taken, readerDone, closeReturned>>

(* rw.Wait(): returns at once when the storing goroutine is done, else blocks until it is *)
CWait ==
  /\ wpc = "c_beforeWait"
  /\ IF readerDone THEN wpc' = "c_ret" /\ closeReturned' = TRUE
                   ELSE wpc' = "c_waiting" /\ closeReturned' = FALSE
  /\ sched' = Append(sched, "W")
  /\ UNCHANGED <<buf, closed, mheld, waiting, rpc, wi, nbytes, taken, readerDone>>

Done == closeReturned /\ readerDone /\ UNCHANGED <<buf, closed, mheld, waiting, rpc, wpc, wi, nbytes, taken, readerDone, closeReturned, sched>>

Next == /\ UNCHANGED <<P, Cap>>
        /\ (REnter \/ RWait \/ RTake \/ WWrite \/ WSignal \/ WNoWrites \/ CStore \/ CBroadcast \/ CWait \/ Done)

Spec == Init /\ [][Next]_vars /\ WF_vars(REnter \/ RWait \/ RTake) /\ WF_vars(WWrite \/ WSignal \/ WNoWrites \/ CStore \/ CBroadcast \/ CWait)

(* ====================== C12 ====================== *)
(* if Close returns (nil: no storing error is modelled) the stored bytes are the concatenation of all writes *)
Concatenation == closeReturned => taken = Bytes(0, nbytes) /\ wi > Len(Writes)

(* Close always returns: no reachable state in which nobody can move before it did (TLC deadlock check),  *)
(* and eventually it does                                                                                  *)
CloseReturns == <>closeReturned

(* ---- emission: one line per terminal or stuck state ---- *)
Stuck == ~closeReturned /\ ~ENABLED (REnter \/ RWait \/ RTake \/ WWrite \/ WSignal \/ WNoWrites \/ CStore \/ CBroadcast \/ CWait)
Outcome == [writes |-> Writes, cap |-> Cap, sched |-> sched, taken |-> Len(taken), intact |-> (taken = Bytes(0, nbytes)),
            written |-> nbytes, closeReturned |-> closeReturned, stuck |-> Stuck]
(* an "invariant" that is always true and prints every terminal (Close returned) or stuck state once *)
EmitEnd == (closeReturned \/ Stuck) => PrintT(<<"B", ToJson(<<Outcome>>)>>)

Cex(h) == PrintT(<<"X", ToJson(<<h>>)>>)
XConcatenation == Concatenation \/ ~Cex(Outcome)
XNotStuck == ~Stuck \/ ~Cex(Outcome)

=============================================================================
