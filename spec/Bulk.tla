-------------------------------- MODULE Bulk --------------------------------
(***************************************************************************)
(* C14 at scale -- the cleaner hands the contents a finished transaction   *)
(* leaves behind to the worker pool in jobs of at most ChunkSize files     *)
(* (usecase/cleaner/delete_files.go: slices.Chunk(files, 1000), one event  *)
(* per chunk).  Whatever the number of files, once the jobs have run the   *)
(* roots hold the live contents only.                                      *)
(*                                                                         *)
(* Sizes are counted in files.  Modes: "rollback" (n writes rolled back),  *)
(* "supersede" (every key written twice in the transaction, committed: n   *)
(* superseded contents), "conflict" (n writes, the commit loses).          *)
(* Mode "commitcrash" belongs to C04: a transaction of n writes commits and the process is killed at every point of   *)
(* the commit; the version records of a commit are ONE persistent step (one Badger transaction), so that afterwards *)
(* all n keys are there or none (cmd/crash judges that; nothing is left to reclaim in this model).                   *)
(* Variant "sharedchunk" (a seeded slip: the jobs share one chunk          *)
(* variable and all see the last chunk) is what the check must refute.     *)
(***************************************************************************)
EXTENDS Integers, Sequences, FiniteSets, TLC, Json

CONSTANTS Ns, Modes, ChunkSize, Variant

VARIABLES n, mode, garbage, live, jobs, phase
vars == <<n, mode, garbage, live, jobs, phase>>

RECURSIVE Chunks(_)
Chunks(g) == IF g = 0 THEN <<>> ELSE IF g <= ChunkSize THEN <<g>> ELSE <<ChunkSize>> \o Chunks(g - ChunkSize)

Init ==
  /\ n \in Ns /\ mode \in Modes
  /\ garbage = 0 /\ live = 1 /\ jobs = <<>> /\ phase = "open"      \* one committed key exists beforehand

(* the transaction ends: what it leaves behind is handed over in chunks *)
End ==
  /\ phase = "open"
  /\ garbage' = n
  /\ live' = IF mode = "supersede" THEN 1 + n ELSE 1
  /\ jobs' = IF Variant = "sharedchunk" /\ Chunks(n) # <<>>
             THEN [i \in 1..Len(Chunks(n)) |-> [size |-> Chunks(n)[Len(Chunks(n))], own |-> i = Len(Chunks(n))]]
             ELSE [i \in 1..Len(Chunks(n)) |-> [size |-> Chunks(n)[i], own |-> TRUE]]
  /\ phase' = "draining"
  /\ UNCHANGED <<n, mode>>
(* a worker runs the next job: a chunk that was already deleted by another job has nothing left to delete *)
RunJob ==
  /\ phase = "draining" /\ jobs # <<>>
  /\ garbage' = IF Head(jobs).own THEN garbage - Head(jobs).size ELSE garbage
  /\ jobs' = Tail(jobs)
  /\ UNCHANGED <<n, mode, live, phase>>
Quiesce ==
  /\ phase = "draining" /\ jobs = <<>> /\ phase' = "quiet"
  /\ UNCHANGED <<n, mode, garbage, live, jobs>>
Done == phase = "quiet" /\ UNCHANGED vars
Next == End \/ RunJob \/ Quiesce \/ Done
Spec == Init /\ [][Next]_vars

Reclaimed == phase = "quiet" => garbage = 0

Emit == phase' = "quiet" /\ phase # "quiet" => PrintT(<<"B", ToJson(<<[n |-> n, bulk |-> mode, files |-> live' + garbage']>>)>>)
Cex == PrintT(<<"X", ToJson(<<[n |-> n, bulk |-> mode, files |-> live + garbage]>>)>>)
XReclaimed == Reclaimed \/ ~Cex
=============================================================================
