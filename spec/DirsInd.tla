------------------------------ MODULE DirsInd ------------------------------
(***************************************************************************)
(* C17, the bound for EVERY limit: the transition relation of Dirs.tla     *)
(* over a fixed universe of directory ids, with the limit left symbolic.   *)
(* Apalache discharges that IndInv is inductive for any Limit >= 1:        *)
(*   apalache-mc check --cinit=CInit --init=IndInit --inv=IndInv --length=1 *)
(*   apalache-mc check --cinit=CInit --init=Init    --inv=IndInv --length=0 *)
(* IndInv implies Bounded and ActiveKnown of Dirs.tla.                      *)
(***************************************************************************)
EXTENDS Integers, FiniteSets

CONSTANTS
  \* @type: Int;
  Limit

\* universe of directory ids and roots (bounded: the induction is over the limit, not over the number of directories)
D == 1..5
Roots == {1, 2}

VARIABLES
  \* @type: Set(Int);
  exists,
  \* @type: Set(Int);
  active,
  \* @type: Int -> Int;
  rootOf,
  \* @type: Int -> Int;
  cnt

CInit == Limit \in Int /\ Limit >= 1

TypeOK ==
  /\ exists \subseteq D /\ active \subseteq D
  /\ rootOf \in [D -> Roots]
  /\ cnt \in [D -> Int]

Init ==
  /\ exists = {} /\ active = {}
  /\ rootOf = [d \in D |-> 1]
  /\ cnt = [d \in D |-> 0]

Full == {d \in active : cnt[d] >= Limit}
NeedFirst == {r \in Roots : {d \in active : rootOf[d] = r} = {}}

(* a write: the full active directories are retired, fresh directories `news` (any non-existing ids, any roots) appear, *)
(* the file goes into one of the directories then offered                                                            *)
Write ==
  \E news \in SUBSET (D \ exists) : \E rof \in [D -> Roots] : \E d \in D :
    /\ \A x \in D \ news : rof[x] = rootOf[x]
    /\ LET act2 == (active \ Full) \cup news IN
       /\ d \in act2
       /\ active' = act2
       /\ exists' = exists \cup news
       /\ rootOf' = rof
       /\ cnt' = [x \in D |-> IF x = d THEN (IF x \in news THEN 0 ELSE cnt[x]) + 1
                              ELSE IF x \in news THEN 0 ELSE cnt[x]]

Delete ==
  \E d \in exists :
    /\ cnt[d] > 0
    /\ cnt' = [cnt EXCEPT ![d] = @ - 1]
    /\ active' = active \cup {d}
    /\ UNCHANGED <<exists, rootOf>>

Reopen == active' = exists /\ UNCHANGED <<exists, rootOf, cnt>>

Next == Write \/ Delete \/ Reopen

IndInv ==
  /\ TypeOK
  /\ active \subseteq exists
  /\ \A d \in D : 0 <= cnt[d] /\ cnt[d] <= Limit
  /\ \A d \in D \ exists : cnt[d] = 0
IndInit ==
  /\ exists \in SUBSET D /\ active \in SUBSET D
  /\ rootOf \in [D -> Roots]
  /\ cnt \in [D -> Int]
  /\ IndInv

Bounded == \A d \in exists : cnt[d] <= Limit
=============================================================================
