------------------------------ MODULE SetRetry ------------------------------
(***************************************************************************)
(* C10, storage side -- a write that runs out of space on one storage root *)
(* continues on another (usecase/store/set.go:34-66,                       *)
(* repository/content/store.go, model/errors.go NotEnoughSpaceError).      *)
(*                                                                         *)
(* The content is a sequence of copy-buffer chunks (32 KiB in the code).   *)
(* Every root has a reported amount of free space (a rank) and possibly a  *)
(* fault: the file write of chunk number `at` returns "no space left",     *)
(* either with nothing written or after part of the chunk was written.     *)
(* The code visits the roots in a random order, skipping roots whose free  *)
(* space is not larger than that of the root that just failed; on a        *)
(* failure it re-reads what the failed file already holds (Start), then    *)
(* the chunk that failed (Middle), then the rest of the source (End).      *)
(*                                                                         *)
(* Variant "asfound": Start is the whole failed file, including the part   *)
(* of the failing chunk that did get written; "repaired": the failed file  *)
(* is cut back to the chunks written completely.                           *)
(***************************************************************************)
EXTENDS Integers, Sequences, FiniteSets, TLC, Json

CONSTANTS Roots,      \* e.g. {1, 2, 3}
          NChunks,    \* chunks of the source (the last one may be shorter in the code; the model does not care)
          Variant

(* The stream is a sequence of SEGMENTS, one per Write call on the content file; a segment is a sequence of bytes. *)
(* A copy-buffer chunk has two bytes, so that a partial write is "the first byte of the chunk".                   *)
Source == [c \in 1..NChunks |-> <<2 * c - 1, 2 * c>>]
RECURSIVE Flat(_)
Flat(segs) == IF segs = <<>> THEN <<>> ELSE Head(segs) \o Flat(Tail(segs))
RECURSIVE Rechunk(_)
(* reading a file back through the copy buffer: pieces of one chunk, the last one possibly shorter *)
Rechunk(bytes) == IF Len(bytes) <= 2 THEN (IF bytes = <<>> THEN <<>> ELSE <<bytes>>)
                  ELSE <<SubSeq(bytes, 1, 2)>> \o Rechunk(SubSeq(bytes, 3, Len(bytes)))

Faults == {[at |-> a, partial |-> p] : a \in 0..(NChunks + 1), p \in {FALSE, TRUE}}   \* at = 0: no fault; else the number of the failing Write call

VARIABLES free,       \* root -> rank of the reported free space (distinct)
          fault,      \* root -> fault plan
          order,      \* the order in which the code visits the roots (its shuffle), fixed initially
          pos,        \* index into order of the next root to consider
          minSize,    \* free space of the root that failed last (0: none)
          input,      \* what the next attempt will read: the re-assembled stream
          stored,     \* content of the file that completed (<<>> while none)
          result,     \* "" | "ok" | "nospace"
          tried       \* roots on which a file was created, in order

vars == <<free, fault, order, pos, minSize, input, stored, result, tried>>

Perms(S) == {f \in [1..Cardinality(S) -> S] : \A i, j \in 1..Cardinality(S) : i # j => f[i] # f[j]}

Init ==
  /\ free \in {f \in [Roots -> 1..Cardinality(Roots)] : \A a, b \in Roots : a # b => f[a] # f[b]}
  /\ fault \in [Roots -> Faults]
  /\ \A r \in Roots : fault[r].at = 0 => ~fault[r].partial
  /\ order \in Perms(Roots)
  /\ pos = 1 /\ minSize = 0 /\ input = Source /\ stored = <<>> /\ result = "" /\ tried = <<>>

(* one attempt on root r: every segment is one Write call; the fault hits Write call number fault[r].at *)
Attempt(r) ==
  LET f == fault[r]
  IN IF f.at = 0 \/ f.at > Len(input)
     THEN /\ stored' = Flat(input) /\ result' = "ok" /\ UNCHANGED <<input, minSize>>
     ELSE LET before == SubSeq(input, 1, f.at - 1)                          \* segments written completely
              chunk  == input[f.at]
              rest   == SubSeq(input, f.at + 1, Len(input))
              written == IF f.partial /\ Len(chunk) > 1 THEN SubSeq(chunk, 1, 1) ELSE <<>>
              onDisk == Flat(before) \o written                              \* the failed file
              start  == IF Variant = "repaired" THEN Flat(before) ELSE onDisk
          IN /\ input' = Rechunk(start) \o <<chunk>> \o rest                 \* Start, Middle, End
             /\ minSize' = free[r]
             /\ UNCHANGED <<stored, result>>

Step ==
  /\ result = ""
  /\ IF pos > Cardinality(Roots)
     THEN result' = "nospace" /\ UNCHANGED <<pos, minSize, input, stored, tried>>
     ELSE LET r == order[pos] IN
          /\ pos' = pos + 1
          /\ IF free[r] <= minSize
             THEN UNCHANGED <<minSize, input, stored, result, tried>>         \* not a candidate
             ELSE Attempt(r) /\ tried' = Append(tried, r)
  /\ UNCHANGED <<free, fault, order>>

Done == result # "" /\ UNCHANGED vars
Next == Step \/ Done
Spec == Init /\ [][Next]_vars

(* ====================== C10 ====================== *)
(* a write reported as successful is complete: the stored bytes are the source stream *)
SuccessIsExact == result = "ok" => stored = Flat(Source)
(* the write succeeds whenever the roots the code visits include one without a fault that reports more free space *)
(* than every root that failed before it                                                                          *)
ContinuesElsewhere ==
  result = "nospace" =>
    ~\E i \in 1..Cardinality(Roots) :
        /\ fault[order[i]].at = 0
        /\ \A j \in 1..(i - 1) : fault[order[j]].at # 0 => free[order[j]] < free[order[i]]

Emit == result' # "" /\ result = "" =>
          PrintT(<<"B", ToJson(<<[free |-> free, fault |-> fault, order |-> order, tried |-> tried', result |-> result',
                                  exact |-> (result' = "ok" => stored' = Flat(Source)), nchunks |-> NChunks]>>)>>)
Cex == PrintT(<<"X", ToJson(<<[free |-> free, fault |-> fault, order |-> order, tried |-> tried, result |-> result,
                               exact |-> (result = "ok" => stored = Flat(Source)), nchunks |-> NChunks]>>)>>)
XSuccessIsExact == SuccessIsExact \/ ~Cex
XContinuesElsewhere == ContinuesElsewhere \/ ~Cex
=============================================================================
