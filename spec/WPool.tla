------------------------------- MODULE WPool -------------------------------
(***************************************************************************)
(* C16 -- the worker pool (internal/utils/wpool): Send (direct, or after a *)
(* time-out the deferred path: list + single flusher guarded by a          *)
(* try-lock), workers, Run, Stop, the two wait groups, the channel of      *)
(* capacity 2 x workers.                                                   *)
(*                                                                         *)
(* Two kinds of actions.  EFFECTS (E...) are what the code does between    *)
(* two observation points (a wait-group change, a channel operation, a     *)
(* lock); they are silent.  OBSERVATIONS (O...) are arrivals of a          *)
(* goroutine at an observation point of the code (or the return of a       *)
(* call); they only move a program counter, possibly guarded by what the   *)
(* goroutine must have seen.  A recorded sequence of arrivals is validated *)
(* against this specification by WPoolTrace.tla, with TLC placing the      *)
(* effects.  Splitting them matters: the effect of one goroutine (a        *)
(* channel send, an unlock, a Done) lets another one run to its next point *)
(* before the first one reaches its own.                                   *)
(*                                                                         *)
(* Variant: "asfound" -- the flusher releases the try-lock in a deferred   *)
(* function after it decided to leave; "repaired" -- it releases it while  *)
(* still holding the list mutex when it found the list empty.              *)
(***************************************************************************)
EXTENDS Integers, Sequences, FiniteSets, TLC

CONSTANTS NWorkers, Jobs, Stoppers, Runners, Cancellers, Variant, StartRunning,
          Ordered,     \* exploration only: callers start their Send in the order of the job ids (symmetry breaking)
          SpuriousTimeout  \* the timer of Send may fire although the channel has room (a descheduled goroutine)

MaxQ == 2 * NWorkers
Workers == 1..NWorkers

VARIABLES running,     \* runM is held: the pool runs
          ctxnil,      \* Run has never been called: p.ctx is nil
          cancelled, chclosed,
          ch,          \* the channel (FIFO)
          el,          \* the deferred list (PushBack / PopBack)
          listM,       \* holder of listM: 0 free, a job id (its sender), -1 the flusher
          lazyM,       \* the flusher try-lock is held
          stopM,       \* holder of the mutex that serialises Stop calls (0 free)
          sendWg, runWg,
          spc, fpc, fjob, wpc, wjob, tpc, rpc,
          xpc, parentCancelled,   \* callers that cancel the context Run was given, and whether that has happened
          started, executed, accepted,
          stopped,     \* a Stop has returned and no Run has succeeded since
          inflightAtStop,  \* ghost: some job was executing when a Stop returned
          lateStart,   \* ghost: a job started after a Stop had returned
          panicked

pool  == <<running, ctxnil, cancelled, chclosed, ch, el, listM, lazyM, stopM, sendWg, runWg>>
pcs   == <<spc, fpc, fjob, wpc, wjob, tpc, rpc, xpc, parentCancelled>>
ghost == <<started, executed, accepted, stopped, inflightAtStop, lateStart, panicked>>
vars  == <<pool, pcs, ghost>>

Last(s) == s[Len(s)]
Front(s) == SubSeq(s, 1, Len(s) - 1)

Init ==
  /\ running = StartRunning /\ ctxnil = ~StartRunning /\ cancelled = FALSE /\ chclosed = FALSE
  /\ ch = <<>> /\ el = <<>> /\ listM = 0 /\ lazyM = FALSE /\ stopM = 0
  /\ sendWg = 0 /\ runWg = IF StartRunning THEN NWorkers ELSE 0
  /\ spc = [j \in Jobs |-> "idle"] /\ fpc = "none" /\ fjob = 0
  /\ wpc = [w \in Workers |-> IF StartRunning THEN "idle" ELSE "none"] /\ wjob = [w \in Workers |-> 0]
  /\ tpc = [t \in Stoppers |-> "idle"] /\ rpc = [r \in Runners |-> "idle"]
  /\ xpc = [x \in Cancellers |-> "idle"] /\ parentCancelled = FALSE
  /\ started = [j \in Jobs |-> 0] /\ executed = [j \in Jobs |-> 0] /\ accepted = {}
  /\ stopped = FALSE /\ inflightAtStop = FALSE /\ lateStart = FALSE /\ panicked = ""

(* the initial state again (used between recorded executions by the trace specification) *)
ResetAll ==
  /\ running' = StartRunning /\ ctxnil' = ~StartRunning /\ cancelled' = FALSE /\ chclosed' = FALSE
  /\ ch' = <<>> /\ el' = <<>> /\ listM' = 0 /\ lazyM' = FALSE /\ stopM' = 0
  /\ sendWg' = 0 /\ runWg' = IF StartRunning THEN NWorkers ELSE 0
  /\ spc' = [j \in Jobs |-> "idle"] /\ fpc' = "none" /\ fjob' = 0
  /\ wpc' = [w \in Workers |-> IF StartRunning THEN "idle" ELSE "none"] /\ wjob' = [w \in Workers |-> 0]
  /\ tpc' = [t \in Stoppers |-> "idle"] /\ rpc' = [r \in Runners |-> "idle"]
  /\ xpc' = [x \in Cancellers |-> "idle"] /\ parentCancelled' = FALSE
  /\ started' = [j \in Jobs |-> 0] /\ executed' = [j \in Jobs |-> 0] /\ accepted' = {}
  /\ stopped' = FALSE /\ inflightAtStop' = FALSE /\ lateStart' = FALSE /\ panicked' = ""

OK == panicked = ""
(* Variant: "asfound" (the flusher gives its role up in its deferred function), "repaired" (under the list lock when   *)
(* it pops nothing, and when it leaves because the pool is stopping), "nounlock" (a seeded slip of the repair: the     *)
(* role is not given up on the stopping path -- the specification must refute it: StrandedAfterRestart)               *)
Rep == Variant \in {"repaired", "nounlock"}

(* Go channel semantics: a value sent while a worker waits in its select is handed to that worker at once; *)
(* otherwise it is buffered (capacity MaxQ). CanSend / Deliver describe both cases.                         *)
IdleWorkers == {w \in Workers : wpc[w] = "idle"}
CanSend == ~chclosed /\ (IdleWorkers # {} \/ Len(ch) < MaxQ)
Deliver(j) ==
  IF IdleWorkers # {}
  THEN \E w \in IdleWorkers : wpc' = [wpc EXCEPT ![w] = "taking"] /\ wjob' = [wjob EXCEPT ![w] = j] /\ ch' = ch
  ELSE ch' = Append(ch, j) /\ UNCHANGED <<wpc, wjob, xpc, parentCancelled>>
SPc(j, from, to) == OK /\ spc[j] = from /\ spc' = [spc EXCEPT ![j] = to]
TPc(t, from, to) == OK /\ tpc[t] = from /\ tpc' = [tpc EXCEPT ![t] = to]
RPc(r, from, to) == OK /\ rpc[r] = from /\ rpc' = [rpc EXCEPT ![r] = to]
WPc(w, from, to) == OK /\ wpc[w] = from /\ wpc' = [wpc EXCEPT ![w] = to]
FPc(from, to) == OK /\ fpc = from /\ fpc' = to

(* ================= Send (send.go, lazy_send.go) ================= *)
(* observations *)
OSendEnter(j)   == SPc(j, "idle", "enter") /\ (Ordered => \A i \in Jobs : i < j => spc[i] # "idle") /\ UNCHANGED <<pool, fpc, fjob, wpc, wjob, tpc, rpc, ghost, xpc, parentCancelled>>
OSendCheck(j)   == SPc(j, "added", "check")  /\ UNCHANGED <<pool, fpc, fjob, wpc, wjob, tpc, rpc, ghost, xpc, parentCancelled>>
OSendDirect(j)  == SPc(j, "put", "direct")   /\ UNCHANGED <<pool, fpc, fjob, wpc, wjob, tpc, rpc, ghost, xpc, parentCancelled>>
(* the timer of the select fired: the channel stayed full for SendDuration, or this goroutine was not scheduled *)
(* for that long although the channel had room (both cases of the select ready: Go picks either)             *)
OSendTimeout(j) == SPc(j, "check", "timeout") /\ ~ctxnil /\ ~cancelled /\ (SpuriousTimeout \/ ~CanSend)
                   /\ UNCHANGED <<pool, fpc, fjob, wpc, wjob, tpc, rpc, ghost, xpc, parentCancelled>>
OLazyPushed(j)  == SPc(j, "pushing", "pushed") /\ UNCHANGED <<pool, fpc, fjob, wpc, wjob, tpc, rpc, ghost, xpc, parentCancelled>>
(* the try-lock failed: somebody held it when this sender tried *)
OLazyTryFail(j) == SPc(j, "pushed", "tryfail") /\ lazyM /\ UNCHANGED <<pool, fpc, fjob, wpc, wjob, tpc, rpc, ghost, xpc, parentCancelled>>
OSendDone(j)    == SPc(j, "ret", "done")     /\ UNCHANGED <<pool, fpc, fjob, wpc, wjob, tpc, rpc, ghost, xpc, parentCancelled>>
(* effects *)
ESendAdd(j) == SPc(j, "enter", "added") /\ sendWg' = sendWg + 1
               /\ UNCHANGED <<running, ctxnil, cancelled, chclosed, ch, el, listM, lazyM, runWg, fpc, fjob, wpc, wjob, tpc, rpc, ghost, stopM, xpc, parentCancelled>>
(* the pool does not run (never started, or stopping): the job is dropped *)
ESendCancelled(j) == SPc(j, "check", "ret") /\ (ctxnil \/ cancelled) /\ sendWg' = sendWg - 1
                     /\ UNCHANGED <<running, ctxnil, cancelled, chclosed, ch, el, listM, lazyM, runWg, fpc, fjob, wpc, wjob, tpc, rpc, ghost, stopM, xpc, parentCancelled>>
ESendPut(j) == SPc(j, "check", "put") /\ ~ctxnil /\ ~cancelled /\ CanSend
               /\ Deliver(j) /\ accepted' = accepted \cup {j}
               /\ UNCHANGED <<running, ctxnil, cancelled, chclosed, el, listM, lazyM, sendWg, runWg, fpc, fjob, tpc, rpc, started, executed, stopped, inflightAtStop, lateStart, panicked, stopM, xpc, parentCancelled>>
ESendRet(j) == SPc(j, "direct", "ret") /\ sendWg' = sendWg - 1
               /\ UNCHANGED <<running, ctxnil, cancelled, chclosed, ch, el, listM, lazyM, runWg, fpc, fjob, wpc, wjob, tpc, rpc, ghost, stopM, xpc, parentCancelled>>
ELazyPush(j) == SPc(j, "timeout", "pushing") /\ listM = 0 /\ listM' = j /\ el' = Append(el, j) /\ accepted' = accepted \cup {j}
                /\ UNCHANGED <<running, ctxnil, cancelled, chclosed, ch, lazyM, sendWg, runWg, fpc, fjob, wpc, wjob, tpc, rpc, started, executed, stopped, inflightAtStop, lateStart, panicked, stopM, xpc, parentCancelled>>
(* lazyResend: the try-lock succeeds, a flusher goroutine is started (sendWg +1 for it) *)
ELazyTryOk(j) == SPc(j, "pushed", "tryok") /\ ~lazyM /\ lazyM' = TRUE /\ fpc = "none" /\ fpc' = "starting" /\ sendWg' = sendWg + 1
                 /\ UNCHANGED <<running, ctxnil, cancelled, chclosed, ch, el, listM, runWg, fjob, wpc, wjob, tpc, rpc, ghost, stopM, xpc, parentCancelled>>
ELazyRet(j) == OK /\ spc[j] \in {"tryok", "tryfail"} /\ spc' = [spc EXCEPT ![j] = "ret"] /\ listM' = 0 /\ sendWg' = sendWg - 1
               /\ UNCHANGED <<running, ctxnil, cancelled, chclosed, ch, el, lazyM, runWg, fpc, fjob, wpc, wjob, tpc, rpc, ghost, stopM, xpc, parentCancelled>>

(* ================= the flusher (lazy_send.go) ================= *)
OFlusherLoop   == OK /\ fpc \in {"starting", "sent"} /\ fpc' = "loop" /\ UNCHANGED <<pool, spc, fjob, wpc, wjob, tpc, rpc, ghost, xpc, parentCancelled>>
OFlusherPopped == FPc("popping", "popped") /\ UNCHANGED <<pool, spc, fjob, wpc, wjob, tpc, rpc, ghost, xpc, parentCancelled>>
OFlusherSent   == FPc("put", "sent") /\ UNCHANGED <<pool, spc, fjob, wpc, wjob, tpc, rpc, ghost, xpc, parentCancelled>>
(* it leaves: nothing popped, or cancelled while holding a job (the job is dropped: the pool is stopping) *)
OFlusherExit   == FPc("leaving", "exitgate") /\ UNCHANGED <<pool, spc, fjob, wpc, wjob, tpc, rpc, ghost, xpc, parentCancelled>>
EFlusherPop == FPc("loop", "popping") /\ listM = 0
               /\ (IF el = <<>> THEN fjob' = 0 /\ el' = el ELSE fjob' = Last(el) /\ el' = Front(el))
               /\ lazyM' = (IF Rep /\ el = <<>> THEN FALSE ELSE lazyM)
               /\ UNCHANGED <<running, ctxnil, cancelled, chclosed, ch, listM, sendWg, runWg, spc, wpc, wjob, tpc, rpc, ghost, stopM, xpc, parentCancelled>>
EFlusherNothing == FPc("popped", "leaving") /\ fjob = 0 /\ UNCHANGED <<pool, spc, fjob, wpc, wjob, tpc, rpc, ghost, xpc, parentCancelled>>
EFlusherCancelled == FPc("popped", "leaving") /\ fjob # 0 /\ cancelled
                     /\ lazyM' = (IF Variant = "repaired" THEN FALSE ELSE lazyM)
                     /\ UNCHANGED <<running, ctxnil, cancelled, chclosed, ch, el, listM, sendWg, runWg, spc, fjob, wpc, wjob, tpc, rpc, ghost, stopM, xpc, parentCancelled>>
EFlusherPut == FPc("popped", "put") /\ fjob # 0 /\ CanSend /\ Deliver(fjob)
               /\ UNCHANGED <<running, ctxnil, cancelled, chclosed, el, listM, lazyM, sendWg, runWg, spc, fjob, tpc, rpc, ghost, stopM, xpc, parentCancelled>>
(* the deferred function of the flusher *)
EFlusherGone == FPc("exitgate", "none") /\ sendWg' = sendWg - 1
                /\ lazyM' = (IF Rep THEN lazyM ELSE FALSE)
                /\ UNCHANGED <<running, ctxnil, cancelled, chclosed, ch, el, listM, runWg, spc, fjob, wpc, wjob, tpc, rpc, ghost, stopM, xpc, parentCancelled>>

(* ================= workers (run.go) ================= *)
OWorkerRecv(w) == WPc(w, "taking", "recv") /\ UNCHANGED <<pool, spc, fpc, fjob, wjob, tpc, rpc, ghost, xpc, parentCancelled>>
(* the job function has begun *)
OJobStart(w) == WPc(w, "recv", "running") /\ started' = [started EXCEPT ![wjob[w]] = @ + 1] /\ lateStart' = (lateStart \/ stopped)
                /\ UNCHANGED <<pool, spc, fpc, fjob, wjob, tpc, rpc, executed, accepted, stopped, inflightAtStop, panicked, xpc, parentCancelled>>
OWorkerDone(w) == WPc(w, "finishing", "donegate") /\ UNCHANGED <<pool, spc, fpc, fjob, wjob, tpc, rpc, ghost, xpc, parentCancelled>>
EJobEnd(w) == WPc(w, "running", "finishing") /\ executed' = [executed EXCEPT ![wjob[w]] = @ + 1]
              /\ UNCHANGED <<pool, spc, fpc, fjob, wjob, tpc, rpc, started, accepted, stopped, inflightAtStop, lateStart, panicked, xpc, parentCancelled>>
(* back to the select: a buffered job is received at once (when the pool is also cancelled Go may pick either case) *)
EWorkerLoop(w) == /\ OK /\ wpc[w] = "donegate"
                  /\ \/ ch # <<>> /\ ~chclosed /\ wpc' = [wpc EXCEPT ![w] = "taking"] /\ wjob' = [wjob EXCEPT ![w] = Head(ch)] /\ ch' = Tail(ch)
                     \/ (ch = <<>> \/ cancelled) /\ wpc' = [wpc EXCEPT ![w] = "idle"] /\ UNCHANGED <<ch, wjob, xpc, parentCancelled>>
                  /\ UNCHANGED <<running, ctxnil, cancelled, chclosed, el, listM, lazyM, sendWg, runWg, spc, fpc, fjob, tpc, rpc, ghost, stopM, xpc, parentCancelled>>
EWorkerExit(w) == WPc(w, "idle", "none") /\ cancelled /\ runWg' = runWg - 1
                  /\ UNCHANGED <<running, ctxnil, cancelled, chclosed, ch, el, listM, lazyM, sendWg, spc, fpc, fjob, wjob, tpc, rpc, ghost, stopM, xpc, parentCancelled>>

(* ================= Stop (stop.go) ================= *)
OStopEnter(t)    == TPc(t, "idle", "enter") /\ UNCHANGED <<pool, spc, fpc, fjob, wpc, wjob, rpc, ghost, xpc, parentCancelled>>
(* the try-lock failed: the pool runs *)
OStopCancel(t)   == TPc(t, "locked", "cancel") /\ running /\ UNCHANGED <<pool, spc, fpc, fjob, wpc, wjob, rpc, ghost, xpc, parentCancelled>>
OStopWaitSend(t) == TPc(t, "cancelling", "waitSend") /\ UNCHANGED <<pool, spc, fpc, fjob, wpc, wjob, rpc, ghost, xpc, parentCancelled>>
OStopWaitRun(t)  == TPc(t, "waitSend", "waitRun") /\ sendWg = 0 /\ UNCHANGED <<pool, spc, fpc, fjob, wpc, wjob, rpc, ghost, xpc, parentCancelled>>
OStopClose(t)    == TPc(t, "waitRun", "close") /\ runWg = 0 /\ UNCHANGED <<pool, spc, fpc, fjob, wpc, wjob, rpc, ghost, xpc, parentCancelled>>
OStopDone(t)     == TPc(t, "ret", "done") /\ UNCHANGED <<pool, spc, fpc, fjob, wpc, wjob, rpc, ghost, xpc, parentCancelled>>
(* the try-lock succeeded: "already stopped"; the deferred Unlock releases it again *)
(* Stop calls are serialised by a mutex of their own *)
EStopLock(t) == TPc(t, "enter", "locked") /\ stopM = 0 /\ stopM' = t
                /\ UNCHANGED <<running, ctxnil, cancelled, chclosed, ch, el, listM, lazyM, sendWg, runWg, spc, fpc, fjob, wpc, wjob, rpc, ghost, xpc, parentCancelled>>
EStopNotRunning(t) == TPc(t, "locked", "ret") /\ ~running /\ stopM' = 0
                      /\ UNCHANGED <<running, ctxnil, cancelled, chclosed, ch, el, listM, lazyM, sendWg, runWg, spc, fpc, fjob, wpc, wjob, rpc, ghost, xpc, parentCancelled>>
EStopCancel(t) == TPc(t, "cancel", "cancelling") /\ cancelled' = TRUE
                  /\ UNCHANGED <<running, ctxnil, chclosed, ch, el, listM, lazyM, sendWg, runWg, spc, fpc, fjob, wpc, wjob, rpc, ghost, stopM, xpc, parentCancelled>>
(* close(p.ch); p.el.Clear(); deferred p.runM.Unlock() *)
EStopClose(t) ==
  /\ OK /\ tpc[t] = "close"
  /\ IF chclosed THEN /\ panicked' = "close of closed channel"
                      /\ UNCHANGED <<chclosed, el, running, stopped, inflightAtStop, tpc, stopM, xpc, parentCancelled>>
     ELSE IF ~running THEN /\ panicked' = "unlock of unlocked mutex"
                           /\ UNCHANGED <<chclosed, el, running, stopped, inflightAtStop, tpc, stopM, xpc, parentCancelled>>
     ELSE /\ chclosed' = TRUE /\ el' = <<>> /\ running' = FALSE /\ stopped' = TRUE /\ stopM' = 0
          /\ inflightAtStop' = (inflightAtStop \/ \E w \in Workers : wpc[w] \in {"running"})
          /\ tpc' = [tpc EXCEPT ![t] = "ret"] /\ panicked' = panicked
  /\ UNCHANGED <<ctxnil, cancelled, ch, listM, lazyM, sendWg, runWg, spc, fpc, fjob, wpc, wjob, rpc, started, executed, accepted, lateStart, xpc, parentCancelled>>

(* ================= Run (run.go) ================= *)
ORunEnter(r) == RPc(r, "idle", "enter") /\ UNCHANGED <<pool, spc, fpc, fjob, wpc, wjob, tpc, ghost, xpc, parentCancelled>>
ORunDone(r)  == RPc(r, "ret", "done") /\ UNCHANGED <<pool, spc, fpc, fjob, wpc, wjob, tpc, ghost, xpc, parentCancelled>>
ERunAlready(r) == RPc(r, "enter", "ret") /\ running /\ UNCHANGED <<pool, spc, fpc, fjob, wpc, wjob, tpc, ghost, xpc, parentCancelled>>
ERun(r) == RPc(r, "enter", "ret") /\ ~running
           /\ running' = TRUE /\ ctxnil' = FALSE /\ cancelled' = parentCancelled /\ chclosed' = FALSE /\ ch' = <<>>
           /\ runWg' = runWg + NWorkers /\ wpc' = [w \in Workers |-> "idle"] /\ stopped' = FALSE
           /\ UNCHANGED <<el, listM, lazyM, sendWg, spc, fpc, fjob, wjob, tpc, started, executed, accepted, inflightAtStop, lateStart, panicked, stopM, xpc, parentCancelled>>

(* ================= the caller cancels the context it gave to Run ================= *)
ECancelParent(x) == /\ OK /\ xpc[x] = "idle" /\ xpc' = [xpc EXCEPT ![x] = "ret"] /\ parentCancelled' = TRUE
                    /\ cancelled' = (IF ctxnil THEN cancelled ELSE TRUE)
                    /\ UNCHANGED <<running, ctxnil, chclosed, ch, el, listM, lazyM, stopM, sendWg, runWg, spc, fpc, fjob, wpc, wjob, tpc, rpc, ghost>>
OCancelDone(x) == /\ OK /\ xpc[x] = "ret" /\ xpc' = [xpc EXCEPT ![x] = "done"]
                  /\ UNCHANGED <<pool, spc, fpc, fjob, wpc, wjob, tpc, rpc, parentCancelled, ghost>>

Effects ==
  \/ \E x \in Cancellers : ECancelParent(x)
  \/ \E j \in Jobs : ESendAdd(j) \/ ESendCancelled(j) \/ ESendPut(j) \/ ESendRet(j) \/ ELazyPush(j) \/ ELazyTryOk(j) \/ ELazyRet(j)
  \/ EFlusherPop \/ EFlusherNothing \/ EFlusherCancelled \/ EFlusherPut \/ EFlusherGone
  \/ \E w \in Workers : EJobEnd(w) \/ EWorkerLoop(w) \/ EWorkerExit(w)
  \/ \E t \in Stoppers : EStopLock(t) \/ EStopNotRunning(t) \/ EStopCancel(t) \/ EStopClose(t)
  \/ \E r \in Runners : ERunAlready(r) \/ ERun(r)

SenderSteps(j) == OSendEnter(j) \/ OSendCheck(j) \/ OSendDirect(j) \/ OSendTimeout(j) \/ OLazyPushed(j) \/ OLazyTryFail(j) \/ OSendDone(j)
                  \/ ESendAdd(j) \/ ESendCancelled(j) \/ ESendPut(j) \/ ESendRet(j) \/ ELazyPush(j) \/ ELazyTryOk(j) \/ ELazyRet(j)
FlusherSteps == OFlusherLoop \/ OFlusherPopped \/ OFlusherSent \/ OFlusherExit \/ EFlusherPop \/ EFlusherNothing \/ EFlusherCancelled \/ EFlusherPut \/ EFlusherGone
WorkerSteps(w) == OWorkerRecv(w) \/ OJobStart(w) \/ OWorkerDone(w) \/ EJobEnd(w) \/ EWorkerLoop(w) \/ EWorkerExit(w)
StopperSteps(t) == OStopEnter(t) \/ OStopCancel(t) \/ OStopWaitSend(t) \/ OStopWaitRun(t) \/ OStopClose(t) \/ OStopDone(t)
                   \/ EStopLock(t) \/ EStopNotRunning(t) \/ EStopCancel(t) \/ EStopClose(t)
RunnerSteps(r) == ORunEnter(r) \/ ORunDone(r) \/ ERunAlready(r) \/ ERun(r)

Next ==
  \/ \E j \in Jobs : SenderSteps(j)
  \/ FlusherSteps
  \/ \E w \in Workers : WorkerSteps(w)
  \/ \E t \in Stoppers : StopperSteps(t)
  \/ \E r \in Runners : RunnerSteps(r)
  \/ \E x \in Cancellers : ECancelParent(x) \/ OCancelDone(x)

(* fairness: every goroutine of the code keeps running once it exists (a Send in progress is a goroutine too; *)
(* whether a caller starts a Send, a Stop or a Run at all is not subject to fairness)                          *)
Fair ==
  /\ \A j \in Jobs : WF_vars(spc[j] # "idle" /\ SenderSteps(j))
  /\ WF_vars(FlusherSteps)
  /\ \A w \in Workers : WF_vars(WorkerSteps(w))

Spec == Init /\ [][Next]_vars /\ Fair

(* ====================== C16 ====================== *)
AtMostOnce == \A j \in Jobs : executed[j] <= 1 /\ started[j] <= 1
NoPanic == panicked = ""
NoStartAfterStop == ~lateStart
StopWaitsForJobs == ~inflightAtStop
(* the same as a safety property: no state in which a job sits in the deferred list although no flusher exists *)
(* and no Send is in progress (nothing but a further Send would ever move it)                                 *)
NoStrandedJob == ~(Stoppers = {} /\ Cancellers = {} /\ el # <<>> /\ fpc = "none" /\ \A j \in Jobs : spc[j] \in {"idle", "done"})
(* ... and the same for a pool that was stopped and is running again: nothing sits in the deferred list with nobody to move it *)
NoStrandedAfterRestart == ~(running /\ ~cancelled /\ el # <<>> /\ fpc = "none" /\ \A j \in Jobs : spc[j] \in {"idle", "done"})
(* the flusher's role lock is never held by nobody *)
NoOrphanRole == fpc = "none" => ~lazyM
(* every job accepted by a running pool that nobody stops is executed, without any further Send *)
EveryJobRuns == (Stoppers = {} /\ Cancellers = {}) => \A j \in Jobs : [](j \in accepted => <>(executed[j] = 1))
(* a Send call always returns *)
SendReturns == (Stoppers = {} /\ Cancellers = {}) => \A j \in Jobs : [](spc[j] # "idle" => <>(spc[j] = "done" \/ panicked # ""))
=============================================================================
