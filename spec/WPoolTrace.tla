----------------------------- MODULE WPoolTrace -----------------------------
(***************************************************************************)
(* Direction B for C16: the sequence of gate arrivals (and returns of the  *)
(* harness calls) recorded from the real worker pool under the controlled  *)
(* scheduler must be a behaviour of WPool.tla.  Every recorded event is    *)
(* bound to the observation action it witnesses; the effects in between    *)
(* (wait-group changes, channel operations, locks) have no observation     *)
(* point and are placed by TLC.  The invariants of WPool.tla are evaluated *)
(* in every state of the validated execution.                              *)
(*                                                                         *)
(* Event: [k |-> "S"|"F"|"W"|"T"|"R", id |-> n, p |-> point] or            *)
(* [k |-> "reset", ...]; the furthest consumed event is kept in register 1.*)
(***************************************************************************)
EXTENDS WPool, Json

CONSTANTS TraceFile

Trace == ndJsonDeserialize(TraceFile)

VARIABLE l
tvars == <<vars, l>>

TInit == Init /\ l = 1 /\ TLCSet(1, 0)

HW == TLCSet(1, IF TLCGet(1) < l THEN l ELSE TLCGet(1))

Ev == Trace[l]
Is(k, p) == Ev.k = k /\ Ev.p = p

Sender ==
  \E j \in Jobs : Ev.id = j /\
    \/ Is("S", "wpool.send.enter") /\ OSendEnter(j)
    \/ Is("S", "wpool.send.check") /\ OSendCheck(j)
    \/ Is("S", "wpool.send.direct") /\ OSendDirect(j)
    \/ Is("S", "wpool.send.timeout") /\ OSendTimeout(j)
    \/ Is("S", "wpool.lazy.pushed") /\ OLazyPushed(j)
    \/ Is("S", "wpool.lazy.tryfail") /\ OLazyTryFail(j)
    \/ Is("S", "done") /\ OSendDone(j)

Flusher ==
  \/ Is("F", "wpool.flusher.loop") /\ OFlusherLoop
  \/ Is("F", "wpool.flusher.popped") /\ OFlusherPopped
  \/ Is("F", "wpool.flusher.sent") /\ OFlusherSent
  \/ Is("F", "wpool.flusher.exit") /\ OFlusherExit

(* worker goroutines are interchangeable: the recorded number is not bound *)
Worker ==
  \E w \in Workers :
    \/ Is("W", "wpool.worker.recv") /\ OWorkerRecv(w)
    \/ Is("W", "job") /\ OJobStart(w)
    \/ Is("W", "wpool.worker.done") /\ OWorkerDone(w)

Stopper ==
  \E t \in Stoppers : Ev.id = t /\
    \/ Is("T", "wpool.stop.enter") /\ OStopEnter(t)
    \/ Is("T", "wpool.stop.cancel") /\ OStopCancel(t)
    \/ Is("T", "wpool.stop.waitSend") /\ OStopWaitSend(t)
    \/ Is("T", "wpool.stop.waitRun") /\ OStopWaitRun(t)
    \/ Is("T", "wpool.stop.close") /\ OStopClose(t)
    \/ Is("T", "done") /\ OStopDone(t)
    \/ Is("T", "panic") /\ EStopClose(t) /\ panicked' # ""

Runner ==
  \E r \in Runners : Ev.id = r /\
    \/ Is("R", "wpool.run.enter") /\ ORunEnter(r)
    \/ Is("R", "done") /\ ORunDone(r)

Canceller ==
  \E x \in Cancellers : Ev.id = x /\ Is("X", "done") /\ OCancelDone(x)

(* the next recorded execution starts from the initial state again *)
Reset == Ev.k = "reset" /\ ResetAll

TNext ==
  \/ l <= Len(Trace) /\ (Sender \/ Flusher \/ Worker \/ Stopper \/ Runner \/ Canceller \/ Reset) /\ l' = l + 1
  \/ Effects /\ UNCHANGED l

TSpec == TInit /\ [][TNext]_tvars

Accepted == IF TLCGet(1) = Len(Trace) + 1 THEN TRUE ELSE PrintT(<<"REJECTED_AT", TLCGet(1)>>) /\ FALSE
=============================================================================
