------------------------------ MODULE FsDbAbs ------------------------------
(***************************************************************************)
(* L0 -- the promise.  Declarative meaning of the public API of fs_db with *)
(* no mechanism at all: a logical clock, the committed value of every key, *)
(* and per open transaction its level, its begin time, the committed state *)
(* at Begin and its own last write per key.                                *)
(*                                                                         *)
(* Everything is a pure operator over an explicit record g so that the     *)
(* same definitions serve as ghost state of the mechanism specifications   *)
(* (FsDb, FsDbConc, FsDbCrash) and as the oracle of the linearisation      *)
(* trace specification (LinTrace).                                         *)
(*                                                                         *)
(* Values: 0 = never written, -1 = deleted, n > 0 = content tag n.         *)
(***************************************************************************)
EXTENDS Integers, Sequences, FiniteSets, TLC

CONSTANTS Keys

MainTx == 0

NoVal == [val |-> 0, time |-> -1]

SnapLevels == {"RR", "SER"}

EmptyF == TLCEval([x \in {} |-> 0])

GInit == [clock |-> 0,
          cm    |-> TLCEval([k \in Keys |-> NoVal]),
          tx    |-> EmptyF,
          ended |-> {}]

GOpen(g) == DOMAIN g.tx

NewerV(a, b) == IF a.time > b.time THEN a ELSE b

MaxV(S) == CHOOSE x \in S : \A y \in S : y.time <= x.time

(* The value a read of key k by reader t (MainTx = autocommit) must return. *)
GVal(g, t, k) ==
  IF t = MainTx THEN g.cm[k]
  ELSE LET me == g.tx[t] IN
       CASE me.level = "RU" -> MaxV({g.cm[k]} \cup {g.tx[u].own[k] : u \in GOpen(g)})
         [] me.level = "RC" -> NewerV(me.own[k], g.cm[k])
         [] OTHER           -> IF me.own[k].time >= 0 THEN me.own[k] ELSE me.snap[k]

(* 0 = ErrNotFound, otherwise the content tag *)
GRead(g, t, k) == LET v == GVal(g, t, k).val IN IF v <= 0 THEN 0 ELSE v

GKeys(g, t) == {k \in Keys : GRead(g, t, k) # 0}

GBegin(g, t, l) ==
  [g EXCEPT !.clock = @ + 1,
            !.tx = TLCEval((t :> [level |-> l, begin |-> g.clock + 1, snap |-> g.cm,
                                  own |-> TLCEval([k \in Keys |-> NoVal])]) @@ @)]

(* a Set (val > 0) or Delete (val = -1) by autocommit or inside open transaction t *)
GWrite(g, t, k, val) ==
  LET v == [val |-> val, time |-> g.clock + 1] IN
  IF t = MainTx
  THEN [g EXCEPT !.clock = @ + 1, !.cm[k] = v]
  ELSE [g EXCEPT !.clock = @ + 1, !.tx[t].own[k] = v]

GWritten(g, t) == {k \in Keys : g.tx[t].own[k].time >= 0}

GConflict(g, t) ==
  /\ g.tx[t].level \in SnapLevels
  /\ \E k \in GWritten(g, t) : g.cm[k].time > g.tx[t].begin

DropTx(g, t) == TLCEval([u \in GOpen(g) \ {t} |-> g.tx[u]])

(* Commit: on conflict nothing but the end of the transaction; otherwise all  *)
(* own last writes become the committed values together, at one instant.      *)
GCommit(g, t) ==
  IF GConflict(g, t)
  THEN [g EXCEPT !.clock = @ + 1, !.tx = DropTx(g, t), !.ended = @ \cup {t}]
  ELSE [g EXCEPT !.clock = @ + 1, !.tx = DropTx(g, t), !.ended = @ \cup {t},
                 !.cm = TLCEval([k \in Keys |-> IF k \in GWritten(g, t)
                                         THEN [val |-> g.tx[t].own[k].val, time |-> g.clock + 1]
                                         ELSE g.cm[k]])]

GRollback(g, t) == [g EXCEPT !.clock = @ + 1, !.tx = DropTx(g, t), !.ended = @ \cup {t}]

(* Close + Open: committed state kept, open transactions gone *)
GReopen(g) == [g EXCEPT !.clock = @ + 1, !.tx = EmptyF, !.ended = @ \cup GOpen(g)]

(* Every operation through an ended or unknown handle, garbage collection and *)
(* failed writes are the identity.                                            *)
=============================================================================
