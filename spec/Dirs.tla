-------------------------------- MODULE Dirs --------------------------------
(***************************************************************************)
(* C17 -- placement of content files: usecase/dir/get.go (create a         *)
(* directory for a root that has none, rotate every active directory whose *)
(* entry count reached the limit), usecase/store/set.go (the file goes to  *)
(* one of the active directories), cleaner/delete_files.go (removing a     *)
(* file re-activates its directory), repository/dir/repository.go (on open *)
(* every UUID-named directory found in a root is active).                  *)
(*                                                                         *)
(* Exploration: Write / Delete / Reopen in any order with a small limit.   *)
(* DirsTrace.tla binds the same operators to recorded walks of the roots.  *)
(***************************************************************************)
EXTENDS Integers, Sequences, FiniteSets, TLC

CONSTANTS Roots, Limit, MaxDirs, MaxSteps

VARIABLES active,    \* directories currently offered for writing
          rootOf,    \* directory -> root
          cnt,       \* directory -> number of entries
          written,   \* a write has happened since the beginning
          steps

dvars == <<active, rootOf, cnt, written, steps>>

Dirs == DOMAIN rootOf
Fn(S, Op(_)) == TLCEval([x \in S |-> Op(x)])

DInit == active = {} /\ rootOf = Fn({}, LAMBDA x : 0) /\ cnt = Fn({}, LAMBDA x : 0) /\ written = FALSE /\ steps = 0

ActiveIn(act, rof, r) == {d \in act : rof[d] = r}

(* usecase/dir/get.go, first loop: roots without an active directory get one *)
NeedFirst(act, rof) == {r \in Roots : ActiveIn(act, rof, r) = {}}
(* second loop: every active directory whose count reached the limit is replaced (the new ones are empty, *)
(* so with Limit >= 1 they are never replaced in the same pass)                                            *)
Full(act, c) == {d \in act : c[d] >= Limit}

(* number of directories Get must create per root *)
Expect(r) == (IF r \in NeedFirst(active, rootOf) THEN 1 ELSE 0) + Cardinality({d \in Full(active, cnt) : rootOf[d] = r})

(* a write whose Get created the directories `news` (a function new directory -> root) and put the file into d *)
WriteTo(d, news) ==
  /\ DOMAIN news \cap Dirs = {}
  /\ \A r \in Roots : Cardinality({n \in DOMAIN news : news[n] = r}) = Expect(r)
  /\ LET act2 == (active \ Full(active, cnt)) \cup DOMAIN news
         rof2 == Fn(Dirs \cup DOMAIN news, LAMBDA x : IF x \in Dirs THEN rootOf[x] ELSE news[x])
         cnt2 == Fn(Dirs \cup DOMAIN news, LAMBDA x : IF x \in Dirs THEN cnt[x] ELSE 0)
     IN /\ d \in act2                                   \* only offered directories receive files
        /\ active' = act2
        /\ rootOf' = rof2
        /\ cnt' = Fn(DOMAIN cnt2, LAMBDA x : IF x = d THEN cnt2[x] + 1 ELSE cnt2[x])
  /\ written' = TRUE

(* the cleaner removed one file of directory d: the directory is offered again *)
DeleteFrom(d) ==
  /\ d \in Dirs /\ cnt[d] > 0
  /\ cnt' = Fn(Dirs, LAMBDA x : IF x = d THEN cnt[x] - 1 ELSE cnt[x])
  /\ active' = active \cup {d}
  /\ UNCHANGED <<rootOf, written>>

(* Close + Open: every directory found in the roots is offered *)
ReopenDirs ==
  /\ active' = Dirs
  /\ UNCHANGED <<rootOf, cnt, written>>

(* ---------- exploration ---------- *)
FreshIds(n) == {Cardinality(Dirs) + i : i \in 1..n}
NewsFor == LET need == [r \in Roots |-> Expect(r)]
               total == LET RECURSIVE Sum(_) Sum(S) == IF S = {} THEN 0 ELSE LET r == CHOOSE r \in S : TRUE IN need[r] + Sum(S \ {r}) IN Sum(Roots)
           IN {f \in [FreshIds(total) -> Roots] : \A r \in Roots : Cardinality({n \in DOMAIN f : f[n] = r}) = need[r]}

Step(A) == steps < MaxSteps /\ steps' = steps + 1 /\ A

DNext ==
  \/ \E news \in NewsFor : \E d \in (active \cup DOMAIN news) : Cardinality(Dirs) + Cardinality(DOMAIN news) <= MaxDirs /\ Step(WriteTo(d, news))
  \/ \E d \in Dirs : Step(DeleteFrom(d))
  \/ Step(ReopenDirs)

(* ---------- C17 ---------- *)
Bounded == \A d \in Dirs : cnt[d] <= Limit
EveryRootOffers == written => \A r \in Roots : ActiveIn(active, rootOf, r) # {}
RoomIsReused == [][\A d \in Dirs : (cnt'[d] < cnt[d]) => d \in active']_dvars
ActiveKnown == active \subseteq Dirs
=============================================================================
