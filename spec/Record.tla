------------------------------- MODULE Record -------------------------------
(***************************************************************************)
(* C19 -- the persisted version record (repository/file/conversion.go):    *)
(*   bytes 1..8    sequence number, little-endian (byte i has weight       *)
(*                 256^(i-1))                                              *)
(*   bytes 9..24   transaction id (16 raw UUID bytes)                      *)
(*   bytes 25..40  content id (16 raw UUID bytes)                          *)
(*   bytes 41..    the key, raw                                            *)
(* TLC integers are 32 bit, so a 64-bit sequence is its 8 base-256 digits. *)
(* Mode "records": golden vectors over boundary records; Mode "bytes":     *)
(* byte strings of length 0..MaxLen grown one byte at a time (decoding     *)
(* must accept exactly those of length >= 40 and never panic).             *)
(***************************************************************************)
EXTENDS Integers, Sequences, FiniteSets, TLC, Json

CONSTANTS Mode, MaxLen

Header == 40
D == {0, 1, 127, 128, 255}

Const(n, d) == [i \in 1..n |-> d]
SeqDigits ==
  {Const(8, d) : d \in D}
  \cup {[i \in 1..8 |-> IF i = p THEN d ELSE 0] : p \in 1..8, d \in D \ {0}}
  \cup {[i \in 1..8 |-> IF i <= p THEN 255 ELSE 0] : p \in 1..8}
  \cup {[i \in 1..8 |-> i]}
Ids ==
  {Const(16, 0), Const(16, 255), [i \in 1..16 |-> i - 1], [i \in 1..16 |-> (i * 17) % 256],
   [i \in 1..16 |-> IF i = 1 THEN 128 ELSE 0], [i \in 1..16 |-> IF i = 16 THEN 1 ELSE 0]}
KeysB ==
  {<<>>, <<0>>, <<65>>, <<255>>, <<195, 40>>, <<107, 47, 208, 186>>, Const(41, 97), Const(1024, 122), <<0, 0, 0>>}

Records == [seq : SeqDigits, tx : Ids, cid : Ids, key : KeysB]

Encode(r) == r.seq \o r.tx \o r.cid \o r.key
Accepts(b) == Len(b) >= Header
Decode(b) == [seq |-> SubSeq(b, 1, 8), tx |-> SubSeq(b, 9, 24), cid |-> SubSeq(b, 25, 40), key |-> SubSeq(b, 41, Len(b))]

VARIABLES rec, bytes, done
vars == <<rec, bytes, done>>

Init ==
  /\ done = FALSE
  /\ IF Mode = "records" THEN rec \in Records /\ bytes = <<>>
     ELSE rec = [seq |-> Const(8, 0), tx |-> Const(16, 0), cid |-> Const(16, 0), key |-> <<>>] /\ bytes = <<>>

Next ==
  \/ /\ Mode = "records" /\ ~done /\ done' = TRUE /\ UNCHANGED <<rec, bytes>>
  \/ /\ Mode = "bytes" /\ Len(bytes) < MaxLen
     /\ \E b \in D : bytes' = Append(bytes, b)
     /\ UNCHANGED <<rec, done>>

Emit ==
  IF Mode = "records"
  THEN PrintT(<<"B", ToJson(<<[mode |-> "rec", seq |-> rec.seq, tx |-> rec.tx, cid |-> rec.cid, key |-> rec.key, enc |-> Encode(rec)]>>)>>)
  ELSE PrintT(<<"B", ToJson(<<[mode |-> "bytes", b |-> bytes', accept |-> Accepts(bytes'),
                               dec |-> IF Accepts(bytes') THEN Decode(bytes') ELSE Decode(Const(40, 0))]>>)>>)
EmitFinal == Emit

RoundTrip ==
  Mode = "records" =>
    /\ Len(Encode(rec)) = Header + Len(rec.key)
    /\ Accepts(Encode(rec))
    /\ Decode(Encode(rec)) = rec
ShortRejected == \A n \in 0..(Header - 1) : ~Accepts(Const(n, 0))
=============================================================================
