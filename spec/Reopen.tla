------------------------------ MODULE Reopen ------------------------------
(***************************************************************************)
(* C05 -- several database instances, several operating-system processes,  *)
(* one process-wide sequence counter (model/sequence/sequence.go).         *)
(*                                                                         *)
(* An instance is a pair (Badger directory, storage roots).  A process     *)
(* opens and closes instances in any order; the counter `gseq` belongs to  *)
(* the process and starts at 0.  Open = usecase/core/load.go: per key keep *)
(* the Main record with the highest sequence, delete the others, then      *)
(* sequence.Set(max).  A write draws the next number and persists a        *)
(* record.  Reads return the newest version of the in-memory list, which   *)
(* is in append order (model/core/list.go), not in sequence order.         *)
(*                                                                         *)
(* SetRule selects how sequence.Set behaves:                               *)
(*   "cas0"  only acts on a zero counter (the code as found)               *)
(*   "max"   raises the counter to the maximum (the repaired code)         *)
(***************************************************************************)
EXTENDS Integers, Sequences, FiniteSets, TLC, Json

CONSTANTS Inst,        \* database instances
          Keys,
          MaxSteps,
          MaxProcs,    \* number of process starts
          SetRule

VARIABLES gseq,        \* counter of the current process
          open,        \* instances open in the current process
          recs,        \* recs[i]: persisted Main records, a set of [key, seq, val, n] (n = write order, ghost)
          mem,         \* mem[i][k]: in-memory version list of an open instance (sequence of [seq, val])
          cm,          \* ghost: cm[i][k] value of the last acknowledged write (0 none, -1 deleted)
          nval, procs, steps, hist

vars == <<gseq, open, recs, mem, cm, nval, procs, steps, hist>>

Fn(S, Op(_)) == TLCEval([x \in S |-> Op(x)])
Max(S) == CHOOSE x \in S : \A y \in S : y <= x

Init ==
  /\ gseq = 0 /\ open = {}
  /\ recs = Fn(Inst, LAMBDA i : {})
  /\ mem = Fn(Inst, LAMBDA i : Fn(Keys, LAMBDA k : <<>>))
  /\ cm = Fn(Inst, LAMBDA i : Fn(Keys, LAMBDA k : 0))
  /\ nval = 0 /\ procs = 1 /\ steps = 0 /\ hist = <<>>

ReadOf(m, k) == IF m[k] = <<>> THEN 0
                ELSE LET v == m[k][Len(m[k])].val IN IF v < 0 THEN 0 ELSE v

ObsNext == {[i |-> i, k |-> k, v |-> ReadOf(mem'[i], k), p |-> IF cm'[i][k] < 0 THEN 0 ELSE cm'[i][k]] :
              i \in open', k \in Keys}
Log(op, args) == hist' = Append(hist, [op |-> op, a |-> args, obs |-> ObsNext])

KeyRecs(i, k) == {r \in recs[i] : r.key = k}
(* Equal sequence numbers (possible only under "cas0") are resolved by Badger's iteration order over   *)
(* random content ids in the code; the model resolves them in favour of the later write, so that every  *)
(* counterexample it produces fails deterministically in the real code.                                 *)
Winner(i, k) == CHOOSE r \in KeyRecs(i, k) :
                  \A q \in KeyRecs(i, k) : q.seq < r.seq \/ (q.seq = r.seq /\ q.n <= r.n)

(* inline.Open: core.Load + sequence.Set *)
OpenI(i) ==
  /\ i \notin open
  /\ LET withRec == {k \in Keys : KeyRecs(i, k) # {}}
         winners == {Winner(i, k) : k \in withRec}
         maxSeq  == IF winners = {} THEN 1 ELSE Max({1} \cup {r.seq : r \in winners})
     IN /\ recs' = [recs EXCEPT ![i] = winners]          \* losers are handed to the cleaner
        /\ mem' = [mem EXCEPT ![i] = Fn(Keys, LAMBDA k : IF k \in withRec
                                                          THEN <<[seq |-> Winner(i, k).seq, val |-> Winner(i, k).val]>>
                                                          ELSE <<>>)]
        /\ gseq' = CASE SetRule = "cas0" -> IF gseq = 0 THEN maxSeq ELSE gseq
                     [] SetRule = "max"  -> IF gseq < maxSeq THEN maxSeq ELSE gseq
  /\ open' = open \cup {i}
  /\ UNCHANGED <<cm, nval, procs>>
  /\ Log("open", [i |-> i])

CloseI(i) ==
  /\ i \in open
  /\ open' = open \ {i}
  /\ mem' = [mem EXCEPT ![i] = Fn(Keys, LAMBDA k : <<>>)]
  /\ UNCHANGED <<gseq, recs, cm, nval, procs>>
  /\ Log("close", [i |-> i])

(* autocommit Set (del = FALSE) or Delete *)
Write(i, k, del) ==
  /\ i \in open
  /\ gseq' = gseq + 1
  /\ nval' = nval + 1
  /\ LET v == IF del THEN -1 ELSE nval + 1
     IN /\ recs' = [recs EXCEPT ![i] = @ \cup {[key |-> k, seq |-> gseq + 1, val |-> v, n |-> nval + 1]}]
        /\ mem' = [mem EXCEPT ![i][k] = Append(@, [seq |-> gseq + 1, val |-> v])]
        /\ cm' = [cm EXCEPT ![i][k] = v]
  /\ UNCHANGED <<open, procs>>
  /\ Log(IF del THEN "del" ELSE "set", [i |-> i, k |-> k, c |-> nval + 1])

(* the process ends with everything closed; the next one starts with a zero counter *)
NewProc ==
  /\ open = {} /\ procs < MaxProcs /\ steps > 0
  /\ procs' = procs + 1
  /\ gseq' = 0
  /\ UNCHANGED <<open, recs, mem, cm, nval>>
  /\ Log("newproc", [x |-> 0])

Step(A) == steps < MaxSteps /\ steps' = steps + 1 /\ A

Next ==
  \/ \E i \in Inst : Step(OpenI(i))
  \/ \E i \in Inst : Step(CloseI(i))
  \/ \E i \in Inst, k \in Keys : Step(Write(i, k, FALSE))
  \/ \E i \in Inst, k \in Keys : Step(Write(i, k, TRUE))
  \/ Step(NewProc)

Spec == Init /\ [][Next]_vars

Emit == PrintT(<<"B", ToJson(hist')>>)

(* C05: what an open instance reads is the last acknowledged write, whatever was  *)
(* opened, closed or restarted in between                                         *)
LastWriteWins == \A i \in open, k \in Keys : ReadOf(mem[i], k) = (IF cm[i][k] < 0 THEN 0 ELSE cm[i][k])

(* the in-memory lists stay in increasing sequence order (what the snapshot search relies on) *)
ListsSorted == \A i \in open, k \in Keys : \A n \in 2..Len(mem[i][k]) : mem[i][k][n - 1].seq < mem[i][k][n].seq

Cex(h) == PrintT(<<"X", ToJson(h)>>)
XLastWriteWins == LastWriteWins \/ ~Cex(hist)
XListsSorted == ListsSorted \/ ~Cex(hist)

View == <<gseq, open, recs, mem, cm, procs, steps>>
=============================================================================
