--------------------------- MODULE SnapshotProof ---------------------------
(***************************************************************************)
(* C08 for any number of committers, snapshot transactions and keys, on    *)
(* the design as repaired:                                                  *)
(*  - a commit holds the main store's lock from before it draws until it   *)
(*    has published, and draws the numbers it publishes under in ONE step  *)
(*    (sequence.NextN);                                                    *)
(*  - a snapshot Begin draws one number (and is registered in the same     *)
(*    step as far as the collector is concerned: sequence.Horizon);        *)
(*  - a snapshot read takes the main store's read lock and returns the     *)
(*    newest version below the transaction's number;                       *)
(*  - the collector picks its horizon as the oldest open snapshot's number *)
(*    or, if there is none, a fresh number.                                *)
(* Proved: a snapshot sees all of a commit's writes or none (AllOrNone);   *)
(* what it can see of a key never changes once it has read (Stable); the   *)
(* collector's horizon is never above an open snapshot (HorizonBelow),     *)
(* which is the hypothesis under which CollectProof shows that collecting  *)
(* changes no lookup.                                                      *)
(***************************************************************************)
EXTENDS Integers, TLAPS

CONSTANTS Tx, Snap, Keys
ASSUME NoFree == "free" \notin Tx

VARIABLES ctr,     \* the sequence counter
          main,    \* main[k]: numbers of the committed versions of k
          lock,    \* "free" or the committer that holds the main store's write lock
          cst,     \* committer -> "idle" | "holding" | "done"
          ws,      \* committer -> keys it writes
          lo, hi,  \* committer -> the range of numbers it drew (lo..hi), one per key, lo > hi: none yet
          bseq,    \* snapshot -> its number (0: not begun)
          sst,     \* snapshot -> "idle" | "open" | "ended"
          seen,    \* snapshot -> has read at least once
          vis,     \* ghost: snapshot -> key -> the version numbers visible to it at its first read
          gch,     \* the horizon the collector has picked (0: none)
          pub      \* ghost: committer -> the numbers it has published under
vars == <<ctr, main, lock, cst, ws, lo, hi, bseq, sst, seen, vis, gch, pub>>

View(s, k) == {x \in main[k] : x < bseq[s]}

Init ==
  /\ ctr = 1
  /\ main = [k \in Keys |-> {}]
  /\ lock = "free"
  /\ cst = [t \in Tx |-> "idle"]
  /\ ws \in [Tx -> SUBSET Keys]
  /\ lo = [t \in Tx |-> 1] /\ hi = [t \in Tx |-> 0]
  /\ bseq = [s \in Snap |-> 0]
  /\ sst = [s \in Snap |-> "idle"]
  /\ seen = [s \in Snap |-> FALSE]
  /\ vis = [s \in Snap |-> [k \in Keys |-> {}]]
  /\ gch = 0
  /\ pub = [t \in Tx |-> {}]

(* lock, draw n consecutive numbers in one step *)
CommitStart(t) ==
  /\ cst[t] = "idle" /\ lock = "free"
  /\ \E n \in Nat :
       /\ lo' = [lo EXCEPT ![t] = ctr + 1]
       /\ hi' = [hi EXCEPT ![t] = ctr + n]
       /\ ctr' = ctr + n
  /\ lock' = t
  /\ cst' = [cst EXCEPT ![t] = "holding"]
  /\ UNCHANGED <<main, ws, bseq, sst, seen, vis, gch, pub>>

(* publish every written key under a number of the range, unlock *)
CommitPublish(t) ==
  /\ cst[t] = "holding" /\ lock = t
  /\ \E f \in [Keys -> Int] :
       /\ \A k \in ws[t] : lo[t] <= f[k] /\ f[k] <= hi[t]
       /\ main' = [k \in Keys |-> IF k \in ws[t] THEN main[k] \cup {f[k]} ELSE main[k]]
       /\ pub' = [pub EXCEPT ![t] = {f[k] : k \in ws[t]}]
  /\ lock' = "free"
  /\ cst' = [cst EXCEPT ![t] = "done"]
  /\ UNCHANGED <<ctr, ws, lo, hi, bseq, sst, seen, vis, gch>>

(* an autocommit write: lock, draw, publish, unlock in one step *)
AutoWrite(k) ==
  /\ lock = "free"
  /\ ctr' = ctr + 1
  /\ main' = [main EXCEPT ![k] = @ \cup {ctr + 1}]
  /\ UNCHANGED <<lock, cst, ws, lo, hi, bseq, sst, seen, vis, gch, pub>>

Begin(s) ==
  /\ sst[s] = "idle"
  /\ ctr' = ctr + 1
  /\ bseq' = [bseq EXCEPT ![s] = ctr + 1]
  /\ sst' = [sst EXCEPT ![s] = "open"]
  /\ UNCHANGED <<main, lock, cst, ws, lo, hi, seen, vis, gch, pub>>

(* a read: under the read lock; the first one fixes the ghost *)
Read(s) ==
  /\ sst[s] = "open" /\ lock = "free"
  /\ seen' = [seen EXCEPT ![s] = TRUE]
  /\ vis' = IF seen[s] THEN vis ELSE [vis EXCEPT ![s] = [k \in Keys |-> View(s, k)]]
  /\ UNCHANGED <<ctr, main, lock, cst, ws, lo, hi, bseq, sst, gch, pub>>

End(s) ==
  /\ sst[s] = "open"
  /\ sst' = [sst EXCEPT ![s] = "ended"]
  /\ UNCHANGED <<ctr, main, lock, cst, ws, lo, hi, bseq, seen, vis, gch, pub>>

(* the collector picks its horizon: the oldest open snapshot, else a fresh number *)
GCPick ==
  /\ \/ /\ \E s \in Snap : sst[s] = "open" /\ gch' = bseq[s] /\ (\A u \in Snap : sst[u] = "open" => bseq[s] <= bseq[u])
        /\ ctr' = ctr
     \/ /\ \A s \in Snap : sst[s] # "open"
        /\ ctr' = ctr + 1 /\ gch' = ctr + 1
  /\ UNCHANGED <<main, lock, cst, ws, lo, hi, bseq, sst, seen, vis, pub>>

Next == (\E t \in Tx : CommitStart(t) \/ CommitPublish(t))
        \/ (\E k \in Keys : AutoWrite(k))
        \/ (\E s \in Snap : Begin(s) \/ Read(s) \/ End(s))
        \/ GCPick
Spec == Init /\ [][Next]_vars

(* ---------------- what is proved ---------------- *)
(* every number a commit published under lies on the same side of every snapshot's number *)
AllOrNone == \A s \in Snap, t \in Tx : sst[s] # "idle" => ((\A x \in pub[t] : x < bseq[s]) \/ (\A x \in pub[t] : bseq[s] < x))
RangesApart == \A s \in Snap, t \in Tx : (sst[s] # "idle" /\ lo[t] <= hi[t]) => (bseq[s] < lo[t] \/ hi[t] < bseq[s])
(* once a snapshot has read, what it can see never changes *)
Stable == \A s \in Snap : seen[s] => \A k \in Keys : View(s, k) = vis[s][k]
(* the collector's horizon is at or below every open snapshot *)
HorizonBelow == \A s \in Snap : sst[s] = "open" => gch <= bseq[s]

IndInv ==
  /\ ctr \in Int /\ gch \in Int
  /\ main \in [Keys -> SUBSET Int]
  /\ lock \in Tx \cup {"free"}
  /\ cst \in [Tx -> {"idle", "holding", "done"}]
  /\ ws \in [Tx -> SUBSET Keys]
  /\ lo \in [Tx -> Int] /\ hi \in [Tx -> Int]
  /\ bseq \in [Snap -> Int]
  /\ sst \in [Snap -> {"idle", "open", "ended"}]
  /\ seen \in [Snap -> BOOLEAN]
  /\ vis \in [Snap -> [Keys -> SUBSET Int]]
  /\ \A t \in Tx : hi[t] <= ctr
  /\ \A s \in Snap : bseq[s] <= ctr /\ (seen[s] => sst[s] # "idle")
  /\ \A k \in Keys : \A x \in main[k] : x <= ctr
  /\ gch <= ctr
  /\ \A t \in Tx : lock = t => cst[t] = "holding"
  /\ \A t \in Tx : cst[t] = "holding" => lock = t
  \* whoever holds the lock drew after every snapshot that has already read
  /\ \A t \in Tx, s \in Snap : (lock = t /\ seen[s]) => bseq[s] < lo[t]
  /\ pub \in [Tx -> SUBSET Int]
  /\ \A t \in Tx : cst[t] = "idle" => pub[t] = {}
  /\ \A t \in Tx : \A x \in pub[t] : lo[t] <= x /\ x <= hi[t]
  /\ RangesApart
  /\ AllOrNone
  /\ Stable
  /\ HorizonBelow

THEOREM InitOK == Init => IndInv
  BY NoFree DEF Init, IndInv, AllOrNone, RangesApart, Stable, HorizonBelow, View

THEOREM StepOK == IndInv /\ [Next]_vars => IndInv'
<1> SUFFICES ASSUME IndInv, [Next]_vars PROVE IndInv'
  OBVIOUS
<1> USE NoFree DEF IndInv, AllOrNone, RangesApart, Stable, HorizonBelow, View
<1>1 ASSUME NEW t \in Tx, CommitStart(t) PROVE IndInv'
  BY <1>1 DEF CommitStart
<1>2 ASSUME NEW t \in Tx, CommitPublish(t) PROVE IndInv'
  <2>0 PICK f \in [Keys -> Int] :
         /\ \A k \in ws[t] : lo[t] <= f[k] /\ f[k] <= hi[t]
         /\ main' = [k \in Keys |-> IF k \in ws[t] THEN main[k] \cup {f[k]} ELSE main[k]]
         /\ pub' = [pub EXCEPT ![t] = {f[k] : k \in ws[t]}]
    BY <1>2 DEF CommitPublish
  <2>1 /\ cst[t] = "holding" /\ lock = t /\ lock' = "free" /\ cst' = [cst EXCEPT ![t] = "done"]
       /\ UNCHANGED <<ctr, ws, lo, hi, bseq, sst, seen, vis, gch>>
    BY <1>2 DEF CommitPublish
  <2>2 ws[t] \subseteq Keys /\ lo[t] \in Int /\ hi[t] \in Int /\ hi[t] <= ctr /\ ctr \in Int
    OBVIOUS
  <2>3 \A k \in ws[t] : f[k] \in Int /\ lo[t] <= f[k] /\ f[k] <= hi[t] /\ f[k] <= ctr
    BY <2>0, <2>2
  <2>4 main' \in [Keys -> SUBSET Int] /\ \A k \in Keys : \A x \in main'[k] : x <= ctr'
    BY <2>0, <2>1, <2>3
  <2>5 pub' \in [Tx -> SUBSET Int] /\ \A u \in Tx : \A x \in pub'[u] : lo'[u] <= x /\ x <= hi'[u]
    BY <2>0, <2>1, <2>3
  <2>6 \A u \in Tx : cst'[u] = "idle" => pub'[u] = {}
    BY <2>0, <2>1
  <2>7 AllOrNone'
    <3> SUFFICES ASSUME NEW s \in Snap, NEW u \in Tx, sst'[s] # "idle"
                 PROVE (\A x \in pub'[u] : x < bseq'[s]) \/ (\A x \in pub'[u] : bseq'[s] < x)
      BY DEF AllOrNone
    <3>1 CASE u # t
      BY <3>1, <2>0, <2>1
    <3>2 CASE u = t
      <4>1 CASE pub'[t] = {}
        BY <4>1, <3>2
      <4>2 CASE pub'[t] # {}
        <5>1 lo[t] <= hi[t]
          BY <4>2, <2>0, <2>3, <2>2
        <5>2 bseq[s] < lo[t] \/ hi[t] < bseq[s]
          BY <5>1, <2>1
        <5>3 \A x \in pub'[t] : lo[t] <= x /\ x <= hi[t] /\ x \in Int
          BY <2>5, <2>1
        <5>4 bseq[s] \in Int
          OBVIOUS
        <5> QED BY <5>2, <5>3, <5>4, <2>1, <2>2, <3>2
      <4> QED BY <4>1, <4>2
    <3> QED BY <3>1, <3>2
  <2>8 Stable'
    <3> SUFFICES ASSUME NEW s \in Snap, seen'[s], NEW k \in Keys PROVE View(s, k)' = vis'[s][k]
      BY DEF Stable
    <3>1 seen[s] /\ bseq[s] < lo[t] /\ bseq[s] \in Int
      BY <2>1
    <3>2 View(s, k) = vis[s][k]
      BY <3>1
    <3>3 main'[k] = IF k \in ws[t] THEN main[k] \cup {f[k]} ELSE main[k]
      BY <2>0
    <3>4 k \in ws[t] => ~(f[k] < bseq[s])
      BY <2>3, <3>1, <2>2
    <3>5 {x \in main'[k] : x < bseq[s]} = {x \in main[k] : x < bseq[s]}
      BY <3>3, <3>4
    <3> QED BY <3>2, <3>5, <2>1
  <2>9 RangesApart' /\ HorizonBelow'
    BY <2>1
  <2>10 /\ \A u \in Tx : lock' = u => cst'[u] = "holding"
        /\ \A u \in Tx : cst'[u] = "holding" => lock' = u
        /\ \A u \in Tx, s \in Snap : (lock' = u /\ seen'[s]) => bseq'[s] < lo'[u]
    BY <2>1
  <2>11 /\ ctr' \in Int /\ gch' \in Int /\ lock' \in Tx \cup {"free"}
        /\ cst' \in [Tx -> {"idle", "holding", "done"}] /\ ws' \in [Tx -> SUBSET Keys]
        /\ lo' \in [Tx -> Int] /\ hi' \in [Tx -> Int] /\ bseq' \in [Snap -> Int]
        /\ sst' \in [Snap -> {"idle", "open", "ended"}] /\ seen' \in [Snap -> BOOLEAN]
        /\ vis' \in [Snap -> [Keys -> SUBSET Int]]
        /\ \A u \in Tx : hi'[u] <= ctr'
        /\ \A s \in Snap : bseq'[s] <= ctr' /\ (seen'[s] => sst'[s] # "idle")
        /\ gch' <= ctr'
    BY <2>1
  <2> QED BY <2>4, <2>5, <2>6, <2>7, <2>8, <2>9, <2>10, <2>11
<1>3 ASSUME NEW k \in Keys, AutoWrite(k) PROVE IndInv'
  BY <1>3 DEF AutoWrite
<1>4 ASSUME NEW s \in Snap, Begin(s) PROVE IndInv'
  BY <1>4 DEF Begin
<1>5 ASSUME NEW s \in Snap, Read(s) PROVE IndInv'
  BY <1>5 DEF Read
<1>6 ASSUME NEW s \in Snap, End(s) PROVE IndInv'
  BY <1>6 DEF End
<1>7 CASE GCPick
  BY <1>7 DEF GCPick
<1>8 CASE UNCHANGED vars
  BY <1>8 DEF vars
<1> QED BY <1>1, <1>2, <1>3, <1>4, <1>5, <1>6, <1>7, <1>8 DEF Next

THEOREM Safety == Spec => [](AllOrNone /\ Stable /\ HorizonBelow)
<1>1 IndInv => AllOrNone /\ Stable /\ HorizonBelow
  BY DEF IndInv
<1> QED BY InitOK, StepOK, <1>1, PTL DEF Spec
=============================================================================
