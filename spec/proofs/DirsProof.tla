----------------------------- MODULE DirsProof -----------------------------
(***************************************************************************)
(* C17: the bound of Dirs.tla for every limit AND every number of          *)
(* directories, as a TLAPS proof (DirsInd.tla is the same statement        *)
(* checked by Apalache over five directory ids).                           *)
(***************************************************************************)
EXTENDS Integers, TLAPS

CONSTANTS D, Roots, Limit
ASSUME LimitAssumption == Limit \in Nat /\ Limit >= 1

VARIABLES exists, active, rootOf, cnt
vars == <<exists, active, rootOf, cnt>>

Init ==
  /\ exists = {} /\ active = {}
  /\ rootOf \in [D -> Roots]
  /\ cnt = [d \in D |-> 0]

Full == {d \in active : cnt[d] >= Limit}

Write ==
  \E news \in SUBSET (D \ exists) : \E rof \in [D -> Roots] : \E d \in D :
    /\ \A x \in D \ news : rof[x] = rootOf[x]
    /\ d \in (active \ Full) \cup news
    /\ active' = (active \ Full) \cup news
    /\ exists' = exists \cup news
    /\ rootOf' = rof
    /\ cnt' = [x \in D |-> IF x = d THEN (IF x \in news THEN 0 ELSE cnt[x]) + 1
                           ELSE IF x \in news THEN 0 ELSE cnt[x]]

Delete ==
  \E d \in exists :
    /\ cnt[d] > 0
    /\ cnt' = [cnt EXCEPT ![d] = @ - 1]
    /\ active' = active \cup {d}
    /\ UNCHANGED <<exists, rootOf>>

Reopen == active' = exists /\ UNCHANGED <<exists, rootOf, cnt>>

Next == Write \/ Delete \/ Reopen
Spec == Init /\ [][Next]_vars

IndInv ==
  /\ exists \subseteq D /\ active \subseteq exists
  /\ rootOf \in [D -> Roots]
  /\ cnt \in [D -> Int]
  /\ \A d \in D : 0 <= cnt[d] /\ cnt[d] <= Limit
  /\ \A d \in D \ exists : cnt[d] = 0

Bounded == \A d \in exists : cnt[d] <= Limit

THEOREM InitOK == Init => IndInv
  BY LimitAssumption DEF Init, IndInv

THEOREM StepOK == IndInv /\ [Next]_vars => IndInv'
<1> SUFFICES ASSUME IndInv, [Next]_vars PROVE IndInv'
  OBVIOUS
<1>1 CASE Write
  BY <1>1, LimitAssumption DEF Write, IndInv, Full
<1>2 CASE Delete
  BY <1>2, LimitAssumption DEF Delete, IndInv
<1>3 CASE Reopen
  BY <1>3 DEF Reopen, IndInv
<1>4 CASE UNCHANGED vars
  BY <1>4 DEF vars, IndInv
<1> QED BY <1>1, <1>2, <1>3, <1>4 DEF Next

THEOREM Safety == Spec => []Bounded
<1>1 IndInv => Bounded
  BY DEF IndInv, Bounded
<1> QED BY InitOK, StepOK, <1>1, PTL DEF Spec
=============================================================================
