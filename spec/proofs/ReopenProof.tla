---------------------------- MODULE ReopenProof ----------------------------
(***************************************************************************)
(* C05 for every number of instances, keys, processes and steps: the rule  *)
(* of Reopen.tla ("max": Open raises the process-wide counter to the       *)
(* highest persisted number) keeps "an open instance reads the last        *)
(* acknowledged write".  The in-memory list is abstracted to its newest    *)
(* element (reads use nothing else).  Rule "cas0" (the code as found) must *)
(* make the proof fail.                                                    *)
(***************************************************************************)
EXTENDS Integers, TLAPS

CONSTANTS Inst, Keys
Rec == [key : Keys, seq : Int, val : Int]

VARIABLES gseq,   \* counter of the current process
          open,   \* instances open in the current process
          recs,   \* recs[i]: persisted records
          last,   \* last[i][k]: value of the newest in-memory version of an open instance (0: none)
          cm      \* ghost: cm[i][k]: value of the last acknowledged write (0: none)
vars == <<gseq, open, recs, last, cm>>

KeyRecs(R, k) == {r \in R : r.key = k}
IsWinner(R, k, r) == r \in KeyRecs(R, k) /\ \A q \in KeyRecs(R, k) : q.seq <= r.seq

Init ==
  /\ gseq = 0 /\ open = {}
  /\ recs = [i \in Inst |-> {}]
  /\ last = [i \in Inst |-> [k \in Keys |-> 0]]
  /\ cm = [i \in Inst |-> [k \in Keys |-> 0]]

(* inline.Open = core.Load + sequence.Set: per key the record with the highest number survives *)
OpenI(i) ==
  /\ i \in Inst /\ i \notin open
  /\ \E W \in SUBSET recs[i] : \E m \in Int :
       /\ \A k \in Keys : (KeyRecs(recs[i], k) = {} /\ KeyRecs(W, k) = {})
                          \/ (\E r \in W : IsWinner(recs[i], k, r) /\ KeyRecs(W, k) = {r})
       /\ \A r \in W : r.seq <= m                         \* m: the highest surviving number (or more)
       /\ recs' = [recs EXCEPT ![i] = W]
       /\ last' = [last EXCEPT ![i] = [k \in Keys |-> IF KeyRecs(W, k) = {} THEN 0
                                                      ELSE (CHOOSE r \in W : r.key = k).val]]
       /\ gseq' = IF gseq < m THEN m ELSE gseq            \* SetRule "max"
  /\ open' = open \cup {i}
  /\ UNCHANGED cm

CloseI(i) ==
  /\ i \in open
  /\ open' = open \ {i}
  /\ UNCHANGED <<gseq, recs, last, cm>>

(* an acknowledged autocommit write of value v (a deletion is a value like any other here) *)
Write(i, k, v) ==
  /\ i \in open /\ k \in Keys /\ v \in Int
  /\ gseq' = gseq + 1
  /\ recs' = [recs EXCEPT ![i] = @ \cup {[key |-> k, seq |-> gseq + 1, val |-> v]}]
  /\ last' = [last EXCEPT ![i][k] = v]
  /\ cm' = [cm EXCEPT ![i][k] = v]
  /\ UNCHANGED open

(* the process ends with everything closed; the next one starts from zero *)
NewProc ==
  /\ open = {}
  /\ gseq' = 0
  /\ UNCHANGED <<open, recs, last, cm>>

Next == (\E i \in Inst : OpenI(i) \/ CloseI(i))
        \/ (\E i \in Inst, k \in Keys, v \in Int : Write(i, k, v))
        \/ NewProc
Spec == Init /\ [][Next]_vars

LastWriteWins == \A i \in open, k \in Keys : last[i][k] = cm[i][k]

IndInv ==
  /\ gseq \in Int /\ open \subseteq Inst
  /\ recs \in [Inst -> SUBSET Rec]
  /\ last \in [Inst -> [Keys -> Int]]
  /\ cm \in [Inst -> [Keys -> Int]]
  \* the persisted record with the highest number of a key is the last acknowledged write; numbers of a key are distinct
  /\ \A i \in Inst, k \in Keys :
       /\ KeyRecs(recs[i], k) = {} => cm[i][k] = 0
       /\ \A r \in KeyRecs(recs[i], k) : IsWinner(recs[i], k, r) => r.val = cm[i][k]
       /\ \A r, q \in KeyRecs(recs[i], k) : r.seq = q.seq => r = q
  \* the counter of the process is at least every number of an instance it has open
  /\ \A i \in open : \A r \in recs[i] : r.seq <= gseq
  /\ LastWriteWins

THEOREM InitOK == Init => IndInv
  BY DEF Init, IndInv, LastWriteWins, KeyRecs, IsWinner, Rec

THEOREM StepOK == IndInv /\ [Next]_vars => IndInv'
<1> SUFFICES ASSUME IndInv, [Next]_vars PROVE IndInv'
  OBVIOUS
<1>1 ASSUME NEW i \in Inst, OpenI(i) PROVE IndInv'
  <2>0 PICK W \in SUBSET recs[i], m \in Int :
         /\ \A k \in Keys : (KeyRecs(recs[i], k) = {} /\ KeyRecs(W, k) = {})
                            \/ (\E r \in W : IsWinner(recs[i], k, r) /\ KeyRecs(W, k) = {r})
         /\ \A r \in W : r.seq <= m
         /\ recs' = [recs EXCEPT ![i] = W]
         /\ last' = [last EXCEPT ![i] = [k \in Keys |-> IF KeyRecs(W, k) = {} THEN 0
                                                        ELSE (CHOOSE r \in W : r.key = k).val]]
         /\ gseq' = IF gseq < m THEN m ELSE gseq
    BY <1>1 DEF OpenI
  <2>1 i \notin open /\ open' = open \cup {i} /\ cm' = cm
    BY <1>1 DEF OpenI
  <2>2 W \subseteq Rec /\ gseq \in Int /\ gseq' \in Int /\ gseq <= gseq' /\ m <= gseq'
    BY <2>0 DEF IndInv
  <2>3 \A j \in Inst : recs'[j] = IF j = i THEN W ELSE recs[j]
    BY <2>0 DEF IndInv
  <2>4 \A j \in Inst : j # i => last'[j] = last[j]
    BY <2>0 DEF IndInv
  <2>5 \A k \in Keys : last'[i][k] = IF KeyRecs(W, k) = {} THEN 0 ELSE (CHOOSE r \in W : r.key = k).val
    BY <2>0 DEF IndInv
  <2>6 \A k \in Keys : last'[i][k] = cm[i][k] /\ last'[i][k] \in Int
    <3> TAKE k \in Keys
    <3>1 CASE KeyRecs(recs[i], k) = {} /\ KeyRecs(W, k) = {}
      BY <3>1, <2>5 DEF IndInv
    <3>2 CASE \E r \in W : IsWinner(recs[i], k, r) /\ KeyRecs(W, k) = {r}
      <4>1 PICK r \in W : IsWinner(recs[i], k, r) /\ KeyRecs(W, k) = {r}
        BY <3>2
      <4>2 \A x \in W : x.key = k => x = r
        BY <4>1 DEF KeyRecs
      <4>3 r.key = k /\ r \in W
        BY <4>1 DEF KeyRecs
      <4>4 (CHOOSE x \in W : x.key = k) = r
        BY <4>2, <4>3
      <4>5 r.val = cm[i][k] /\ r.val \in Int
        BY <4>1, <2>2 DEF IndInv, IsWinner, Rec
      <4>6 KeyRecs(W, k) # {}
        BY <4>1
      <4> QED BY <4>4, <4>5, <4>6, <2>5
    <3> QED BY <3>1, <3>2, <2>0
  <2>7 recs' \in [Inst -> SUBSET Rec] /\ cm' \in [Inst -> [Keys -> Int]] /\ open' \subseteq Inst
    BY <2>0, <2>1, <2>2 DEF IndInv
  <2>8 last' \in [Inst -> [Keys -> Int]]
    BY <2>0, <2>6 DEF IndInv
  <2>9 \A j \in Inst, kk \in Keys :
         /\ KeyRecs(recs'[j], kk) = {} => cm'[j][kk] = 0
         /\ \A r \in KeyRecs(recs'[j], kk) : IsWinner(recs'[j], kk, r) => r.val = cm'[j][kk]
         /\ \A r, q \in KeyRecs(recs'[j], kk) : r.seq = q.seq => r = q
    <3> TAKE j \in Inst, kk \in Keys
    <3>1 CASE j # i
      BY <3>1, <2>3, <2>1 DEF IndInv
    <3>2 CASE j = i
      <4>0 recs'[j] = W
        BY <3>2, <2>3
      <4>1 CASE KeyRecs(recs[i], kk) = {} /\ KeyRecs(W, kk) = {}
        BY <4>0, <4>1, <3>2, <2>1 DEF IndInv
      <4>2 CASE \E r \in W : IsWinner(recs[i], kk, r) /\ KeyRecs(W, kk) = {r}
        <5>1 PICK r \in W : IsWinner(recs[i], kk, r) /\ KeyRecs(W, kk) = {r}
          BY <4>2
        <5>2 r.val = cm[i][kk]
          BY <5>1 DEF IndInv, IsWinner
        <5> QED BY <5>1, <5>2, <4>0, <3>2, <2>1
      <4> QED BY <4>1, <4>2, <2>0
    <3> QED BY <3>1, <3>2
  <2>10 \A j \in open' : \A r \in recs'[j] : r.seq <= gseq'
    <3> SUFFICES ASSUME NEW j \in open', NEW r \in recs'[j] PROVE r.seq <= gseq'
      OBVIOUS
    <3>1 CASE j = i
      <4>1 r \in W
        BY <3>1, <2>3
      <4>2 r.seq <= m /\ r.seq \in Int
        BY <4>1, <2>0, <2>2 DEF Rec
      <4> QED BY <4>2, <2>2
    <3>2 CASE j # i
      <4>1 j \in open /\ j \in Inst
        BY <3>2, <2>1 DEF IndInv
      <4>2 r \in recs[j]
        BY <4>1, <3>2, <2>3
      <4>3 r.seq <= gseq /\ r.seq \in Int
        BY <4>1, <4>2 DEF IndInv, Rec
      <4> QED BY <4>3, <2>2
    <3> QED BY <3>1, <3>2
  <2>11 LastWriteWins'
    <3> SUFFICES ASSUME NEW j \in open', NEW k \in Keys PROVE last'[j][k] = cm'[j][k]
      BY DEF LastWriteWins
    <3>1 CASE j = i
      BY <3>1, <2>6, <2>1
    <3>2 CASE j # i
      <4>1 j \in open /\ j \in Inst
        BY <3>2, <2>1 DEF IndInv
      <4> QED BY <4>1, <3>2, <2>4, <2>1 DEF IndInv, LastWriteWins
    <3> QED BY <3>1, <3>2
  <2> QED BY <2>2, <2>7, <2>8, <2>9, <2>10, <2>11 DEF IndInv
<1>2 ASSUME NEW i \in Inst, CloseI(i) PROVE IndInv'
  BY <1>2 DEF CloseI, IndInv, LastWriteWins, KeyRecs, IsWinner, Rec
<1>3 ASSUME NEW i \in Inst, NEW k \in Keys, NEW v \in Int, Write(i, k, v) PROVE IndInv'
  <2> DEFINE n == [key |-> k, seq |-> gseq + 1, val |-> v]
  <2>0 i \in open /\ gseq' = gseq + 1 /\ open' = open
    BY <1>3 DEF Write
  <2>1 n \in Rec
    BY DEF IndInv, Rec
  <2>2 \A j \in Inst : recs'[j] = IF j = i THEN recs[i] \cup {n} ELSE recs[j]
    BY <1>3 DEF Write, IndInv
  <2>3 \A j \in Inst, kk \in Keys : cm'[j][kk] = IF j = i /\ kk = k THEN v ELSE cm[j][kk]
    BY <1>3 DEF Write, IndInv
  <2>4 \A j \in Inst, kk \in Keys : last'[j][kk] = IF j = i /\ kk = k THEN v ELSE last[j][kk]
    BY <1>3 DEF Write, IndInv
  <2>5 \A r \in recs[i] : r.seq <= gseq
    BY <2>0 DEF IndInv
  <2>6 recs' \in [Inst -> SUBSET Rec] /\ cm' \in [Inst -> [Keys -> Int]] /\ last' \in [Inst -> [Keys -> Int]] /\ gseq' \in Int /\ open' \subseteq Inst
    BY <1>3, <2>1 DEF Write, IndInv
  <2>7 \A j \in Inst, kk \in Keys :
         /\ KeyRecs(recs'[j], kk) = {} => cm'[j][kk] = 0
         /\ \A r \in KeyRecs(recs'[j], kk) : IsWinner(recs'[j], kk, r) => r.val = cm'[j][kk]
         /\ \A r, q \in KeyRecs(recs'[j], kk) : r.seq = q.seq => r = q
    <3> TAKE j \in Inst, kk \in Keys
    <3>1 CASE j = i /\ kk = k
      <4>1 KeyRecs(recs'[j], kk) = KeyRecs(recs[i], k) \cup {n}
        BY <3>1, <2>2 DEF KeyRecs
      <4>2 \A r \in KeyRecs(recs[i], k) : r.seq <= gseq /\ r.seq < n.seq
        BY <2>5 DEF KeyRecs, IndInv, Rec
      <4>2a n.seq = gseq + 1 /\ n \in KeyRecs(recs'[j], kk) /\ gseq \in Int
        BY <4>1 DEF IndInv
      <4>3 \A r \in KeyRecs(recs'[j], kk) : IsWinner(recs'[j], kk, r) => r = n
        <5> SUFFICES ASSUME NEW r \in KeyRecs(recs'[j], kk), IsWinner(recs'[j], kk, r), r # n PROVE FALSE
          OBVIOUS
        <5>1 r \in KeyRecs(recs[i], k)
          BY <4>1
        <5>2 r.seq < n.seq
          BY <5>1, <4>2
        <5>3 n.seq <= r.seq
          BY <4>2a DEF IsWinner
        <5>4 r.seq \in Int /\ n.seq \in Int
          BY <5>1, <4>2a DEF KeyRecs, IndInv, Rec
        <5> QED BY <5>2, <5>3, <5>4
      <4>4 cm'[j][kk] = v
        BY <3>1, <2>3
      <4>5 \A r, q \in KeyRecs(recs[i], k) : r.seq = q.seq => r = q
        BY DEF IndInv
      <4> QED BY <4>1, <4>2, <4>3, <4>4, <4>5
    <3>2 CASE ~(j = i /\ kk = k)
      <4>1 KeyRecs(recs'[j], kk) = KeyRecs(recs[j], kk)
        BY <3>2, <2>2 DEF KeyRecs
      <4>2 cm'[j][kk] = cm[j][kk]
        BY <3>2, <2>3
      <4> QED BY <4>1, <4>2 DEF IndInv, IsWinner
    <3> QED BY <3>1, <3>2
  <2>8 \A j \in open' : \A r \in recs'[j] : r.seq <= gseq'
    <3> SUFFICES ASSUME NEW j \in open', NEW r \in recs'[j] PROVE r.seq <= gseq'
      OBVIOUS
    <3>0 j \in open /\ j \in Inst /\ gseq \in Int
      BY <2>0 DEF IndInv
    <3>1 CASE j = i
      <4>1 r \in recs[i] \/ r = n
        BY <3>1, <2>2
      <4>2 r \in recs[i] => r.seq \in Int /\ r.seq <= gseq
        BY <2>5 DEF IndInv, Rec
      <4> QED BY <4>1, <4>2, <3>0, <2>0
    <3>2 CASE j # i
      <4>1 r \in recs[j]
        BY <3>0, <3>2, <2>2
      <4>2 r.seq \in Int /\ r.seq <= gseq
        BY <3>0, <4>1 DEF IndInv, Rec
      <4> QED BY <4>2, <3>0, <2>0
    <3> QED BY <3>1, <3>2
  <2>9 LastWriteWins'
    BY <2>0, <2>3, <2>4 DEF IndInv, LastWriteWins
  <2> QED BY <2>6, <2>7, <2>8, <2>9 DEF IndInv
<1>4 CASE NewProc
  BY <1>4 DEF NewProc, IndInv, LastWriteWins, KeyRecs, IsWinner, Rec
<1>5 CASE UNCHANGED vars
  BY <1>5 DEF vars, IndInv, LastWriteWins, KeyRecs, IsWinner, Rec
<1> QED BY <1>1, <1>2, <1>3, <1>4, <1>5 DEF Next

THEOREM Safety == Spec => []LastWriteWins
<1>1 IndInv => LastWriteWins
  BY DEF IndInv
<1> QED BY InitOK, StepOK, <1>1, PTL DEF Spec
=============================================================================
