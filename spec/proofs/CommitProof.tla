---------------------------- MODULE CommitProof ----------------------------
(***************************************************************************)
(* C07 for any number of transactions and keys: with the conflict test and *)
(* the publication in ONE critical section (usecase/core/update_tx.go as   *)
(* repaired), of two snapshot transactions that both began before either   *)
(* commit started and that write a common key, at most one commits.        *)
(*                                                                         *)
(* ctr is the process-wide sequence counter; main[k] the number of the     *)
(* newest committed version of k (0: none); a snapshot transaction t has   *)
(* its begin number bseq[t], a write set ws[t] and, once committed, the    *)
(* counter value cseq[t] at which its commit started (ghost).  Autocommit  *)
(* writers publish one key with the next number.                            *)
(***************************************************************************)
EXTENDS Integers, TLAPS

CONSTANTS Tx, Keys

VARIABLES ctr, main, st, bseq, ws, cseq
vars == <<ctr, main, st, bseq, ws, cseq>>

Init ==
  /\ ctr = 1
  /\ main = [k \in Keys |-> 0]
  /\ st = [t \in Tx |-> "idle"]
  /\ bseq = [t \in Tx |-> 0]
  /\ ws = [t \in Tx |-> {}]
  /\ cseq = [t \in Tx |-> 0]

Begin(t) ==
  /\ st[t] = "idle"
  /\ ctr' = ctr + 1
  /\ bseq' = [bseq EXCEPT ![t] = ctr + 1]
  /\ \E w \in SUBSET Keys : ws' = [ws EXCEPT ![t] = w]     \* what it is going to write
  /\ st' = [st EXCEPT ![t] = "open"]
  /\ UNCHANGED <<main, cseq>>

AutoWrite(k) ==
  /\ ctr' = ctr + 1
  /\ main' = [main EXCEPT ![k] = ctr + 1]
  /\ UNCHANGED <<st, bseq, ws, cseq>>

Conflict(t) == \E k \in ws[t] : main[k] > bseq[t]

(* one critical section: test, then publish every written key with fresh numbers *)
Commit(t) ==
  /\ st[t] = "open"
  /\ IF Conflict(t)
     THEN /\ st' = [st EXCEPT ![t] = "aborted"]
          /\ \E c \in Int : c >= ctr /\ ctr' = c
          /\ UNCHANGED <<main, cseq>>
     ELSE /\ st' = [st EXCEPT ![t] = "committed"]
          /\ cseq' = [cseq EXCEPT ![t] = ctr]
          /\ \E c \in Int, m \in [Keys -> Int] :
               /\ \A k \in Keys : IF k \in ws[t] THEN m[k] > ctr /\ m[k] <= c ELSE m[k] = main[k]
               /\ c >= ctr
               /\ main' = m /\ ctr' = c
  /\ UNCHANGED <<bseq, ws>>

Next == (\E t \in Tx : Begin(t) \/ Commit(t)) \/ (\E k \in Keys : AutoWrite(k))
Spec == Init /\ [][Next]_vars

(* both had begun before either commit started, they write a common key: not both committed *)
FirstCommitterWins ==
  \A a, b \in Tx :
    (a # b /\ st[a] = "committed" /\ st[b] = "committed" /\ ws[a] \cap ws[b] # {})
      => ~(bseq[a] <= cseq[b] /\ bseq[b] <= cseq[a])

IndInv ==
  /\ ctr \in Int
  /\ main \in [Keys -> Int]
  /\ st \in [Tx -> {"idle", "open", "committed", "aborted"}]
  /\ bseq \in [Tx -> Int] /\ cseq \in [Tx -> Int]
  /\ ws \in [Tx -> SUBSET Keys]
  /\ \A k \in Keys : main[k] <= ctr
  /\ \A t \in Tx : bseq[t] <= ctr /\ cseq[t] <= ctr
  /\ \A t \in Tx : st[t] = "committed" => \A k \in ws[t] : main[k] > cseq[t]
  /\ FirstCommitterWins

THEOREM InitOK == Init => IndInv
  BY DEF Init, IndInv, FirstCommitterWins

THEOREM StepOK == IndInv /\ [Next]_vars => IndInv'
<1> SUFFICES ASSUME IndInv, [Next]_vars PROVE IndInv'
  OBVIOUS
<1>1 ASSUME NEW t \in Tx, Begin(t) PROVE IndInv'
  BY <1>1 DEF Begin, IndInv, FirstCommitterWins
<1>2 ASSUME NEW k \in Keys, AutoWrite(k) PROVE IndInv'
  BY <1>2 DEF AutoWrite, IndInv, FirstCommitterWins
<1>3 ASSUME NEW t \in Tx, Commit(t) PROVE IndInv'
  <2>1 CASE Conflict(t)
    BY <1>3, <2>1 DEF Commit, IndInv, FirstCommitterWins
  <2>2 CASE ~Conflict(t)
    <3>0 PICK c \in Int, m \in [Keys -> Int] :
           /\ \A k \in Keys : IF k \in ws[t] THEN m[k] > ctr /\ m[k] <= c ELSE m[k] = main[k]
           /\ c >= ctr
           /\ main' = m /\ ctr' = c
      BY <1>3, <2>2 DEF Commit
    <3>1 st[t] = "open" /\ st' = [st EXCEPT ![t] = "committed"] /\ cseq' = [cseq EXCEPT ![t] = ctr] /\ bseq' = bseq /\ ws' = ws
      BY <1>3, <2>2 DEF Commit
    <3>2 \A k \in Keys : main[k] <= main'[k] /\ main'[k] <= ctr'
      BY <3>0 DEF IndInv
    <3>3 \A k \in ws[t] : main[k] <= bseq[t]
      BY <2>2 DEF Conflict, IndInv
    <3>4 \A u \in Tx : st'[u] = "committed" => \A k \in ws'[u] : main'[k] > cseq'[u]
      <4> SUFFICES ASSUME NEW u \in Tx, st'[u] = "committed", NEW k \in ws'[u] PROVE main'[k] > cseq'[u]
        OBVIOUS
      <4>0 k \in Keys
        BY <3>1 DEF IndInv
      <4>1 CASE u = t
        BY <4>1, <4>0, <3>0, <3>1 DEF IndInv
      <4>2 CASE u # t
        <5>1 st[u] = "committed" /\ cseq'[u] = cseq[u] /\ k \in ws[u]
          BY <4>2, <3>1 DEF IndInv
        <5>2 main[k] > cseq[u]
          BY <5>1 DEF IndInv
        <5>3 main[k] \in Int /\ main'[k] \in Int /\ cseq[u] \in Int /\ main[k] <= main'[k]
          BY <4>0, <3>0, <3>2 DEF IndInv
        <5> QED BY <5>1, <5>2, <5>3
      <4> QED BY <4>1, <4>2
    <3>5 FirstCommitterWins'
      <4> SUFFICES ASSUME NEW a \in Tx, NEW b \in Tx, a # b, st'[a] = "committed", st'[b] = "committed", ws'[a] \cap ws'[b] # {},
                          bseq'[a] <= cseq'[b], bseq'[b] <= cseq'[a]
                   PROVE FALSE
        BY DEF FirstCommitterWins
      <4>1 CASE a # t /\ b # t
        BY <4>1, <3>1 DEF IndInv, FirstCommitterWins
      <4>2 CASE b = t
        \* a committed earlier and shares a key k with t: main[k] > cseq[a]; t passed the test: main[k] <= bseq[t] <= cseq[a]
        <5>1 PICK k \in ws[a] \cap ws[t] : TRUE
          BY <4>2, <3>1
        <5>2 st[a] = "committed" /\ cseq'[a] = cseq[a]
          BY <4>2, <3>1 DEF IndInv
        <5>3 main[k] > cseq[a]
          BY <5>1, <5>2 DEF IndInv
        <5>4 main[k] <= bseq[t]
          BY <5>1, <3>3
        <5>5 bseq[t] <= cseq[a]
          BY <4>2, <5>2, <3>1
        <5>6 k \in Keys
          BY <5>1 DEF IndInv
        <5> QED BY <5>3, <5>4, <5>5, <5>6 DEF IndInv
      <4>3 CASE a = t
        <5>1 PICK k \in ws[b] \cap ws[t] : TRUE
          BY <4>3, <3>1
        <5>2 st[b] = "committed" /\ cseq'[b] = cseq[b]
          BY <4>3, <3>1 DEF IndInv
        <5>3 main[k] > cseq[b]
          BY <5>1, <5>2 DEF IndInv
        <5>4 main[k] <= bseq[t]
          BY <5>1, <3>3
        <5>5 bseq[t] <= cseq[b]
          BY <4>3, <5>2, <3>1
        <5>6 k \in Keys
          BY <5>1 DEF IndInv
        <5> QED BY <5>3, <5>4, <5>5, <5>6 DEF IndInv
      <4> QED BY <4>1, <4>2, <4>3
    <3>6 ctr' \in Int /\ main' \in [Keys -> Int] /\ st' \in [Tx -> {"idle", "open", "committed", "aborted"}]
         /\ bseq' \in [Tx -> Int] /\ cseq' \in [Tx -> Int] /\ ws' \in [Tx -> SUBSET Keys]
      BY <3>0, <3>1 DEF IndInv
    <3>7 \A u \in Tx : bseq'[u] <= ctr' /\ cseq'[u] <= ctr'
      BY <3>0, <3>1 DEF IndInv
    <3> QED BY <3>2, <3>4, <3>5, <3>6, <3>7 DEF IndInv
  <2> QED BY <2>1, <2>2
<1>4 CASE UNCHANGED vars
  BY <1>4 DEF vars, IndInv, FirstCommitterWins
<1> QED BY <1>1, <1>2, <1>3, <1>4 DEF Next

THEOREM Safety == Spec => []FirstCommitterWins
<1>1 IndInv => FirstCommitterWins
  BY DEF IndInv
<1> QED BY InitOK, StepOK, <1>1, PTL DEF Spec
=============================================================================
