---------------------------- MODULE CollectProof ----------------------------
(***************************************************************************)
(* C18 / C09 for version lists of any length and any numbers: collecting   *)
(* up to a horizon leaves every lookup at or after the horizon unchanged,  *)
(* and the newest version is never collected.                              *)
(*                                                                         *)
(* A version list is the set S of its (distinct) sequence numbers.         *)
(* Collect(S, h) removes exactly the versions that have a successor not    *)
(* newer than h (model/core/file.go IterateBeforeSeq + PopFront, as        *)
(* VersionList.tla transcribes it: version i goes iff version i+1 exists   *)
(* with a number <= h; "some later version <= h" is the same condition).   *)
(* IsLastBefore(S, b, x): x is what a snapshot lookup at point b returns.  *)
(* No version carries the number of a snapshot point (all numbers are      *)
(* separate draws from one counter): h \notin S.                            *)
(***************************************************************************)
EXTENDS Integers, TLAPS

Collect(S, h) == {x \in S : ~\E y \in S : x < y /\ y <= h}
IsLastBefore(S, b, x) == x \in S /\ x < b /\ \A z \in S : z < b => z <= x
NoneBefore(S, b) == \A z \in S : ~(z < b)
IsLatest(S, x) == x \in S /\ \A z \in S : z <= x

THEOREM LookupUnchanged ==
  ASSUME NEW S \in SUBSET Int, NEW h \in Int, h \notin S, NEW b \in Int, b >= h
  PROVE  /\ \A x \in Int : IsLastBefore(S, b, x) => IsLastBefore(Collect(S, h), b, x)
         /\ NoneBefore(S, b) => NoneBefore(Collect(S, h), b)
         /\ \A x, y \in Int : IsLastBefore(Collect(S, h), b, x) /\ IsLastBefore(Collect(S, h), b, y) => x = y
<1>1 ASSUME NEW x \in Int, IsLastBefore(S, b, x) PROVE IsLastBefore(Collect(S, h), b, x)
  <2>1 x \in S /\ x < b /\ \A z \in S : z < b => z <= x
    BY <1>1 DEF IsLastBefore
  <2>2 ~\E y \in S : x < y /\ y <= h
    <3> SUFFICES ASSUME NEW y \in S, x < y, y <= h PROVE FALSE
      OBVIOUS
    <3>1 y # h
      OBVIOUS
    <3>2 y < b
      BY <3>1
    <3> QED BY <3>2, <2>1
  <2>3 x \in Collect(S, h)
    BY <2>1, <2>2 DEF Collect
  <2> QED BY <2>1, <2>3 DEF IsLastBefore, Collect
<1>2 NoneBefore(S, b) => NoneBefore(Collect(S, h), b)
  BY DEF NoneBefore, Collect
<1>3 ASSUME NEW x \in Int, NEW y \in Int, IsLastBefore(Collect(S, h), b, x), IsLastBefore(Collect(S, h), b, y) PROVE x = y
  BY <1>3 DEF IsLastBefore
<1> QED BY <1>1, <1>2, <1>3

THEOREM LatestKept ==
  ASSUME NEW S \in SUBSET Int, NEW h \in Int, NEW x \in Int, IsLatest(S, x)
  PROVE  IsLatest(Collect(S, h), x)
  BY DEF IsLatest, Collect

(* exactly the versions with a successor not newer than the horizon go: a second pass with the same horizon removes nothing *)
THEOREM CollectIdempotent ==
  ASSUME NEW S \in SUBSET Int, NEW h \in Int
  PROVE  Collect(Collect(S, h), h) = Collect(S, h)
<1>1 ASSUME NEW x \in Collect(S, h), NEW y \in Collect(S, h), x < y, y <= h PROVE FALSE
  BY <1>1 DEF Collect
<1> QED BY <1>1 DEF Collect
=============================================================================
