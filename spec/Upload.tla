------------------------------- MODULE Upload -------------------------------
(***************************************************************************)
(* C10, transport side -- an upload through the gRPC client                *)
(* (pkg/external/db/set_reader.go, create.go -> streamwriter -> server     *)
(* delivery/grpc/store/set.go -> streamreader -> store.Set).               *)
(*                                                                         *)
(* The client copies the source into the stream writer, which sends a      *)
(* message whenever it holds a full chunk (2048 bytes; 2 units here) and   *)
(* the remainder on Close, then half-closes and waits for the verdict.     *)
(* The server stores what its stream reader delivers and commits when the  *)
(* reader reports end of stream.                                           *)
(*                                                                         *)
(* Faults after `p` units of the source were consumed: the source reader   *)
(* returns an error ("readerr"), the caller's context is cancelled         *)
(* ("cancel"), the connection breaks ("cut").  In all three the client     *)
(* stops without half-closing and the server's Recv returns an error that  *)
(* is not io.EOF, after the full chunks sent so far.                       *)
(*                                                                         *)
(* Variant "asfound": the stream reader turns ANY Recv error into end of   *)
(* stream (streamreader/reader.go:28-31): the server commits the prefix.   *)
(* "repaired": a Recv error other than io.EOF fails the read.              *)
(*                                                                         *)
(* Early verdicts (C11 over a stream): the server may end the call before  *)
(* the client has sent everything -- an empty key is refused on the header *)
(* ("reject_emptykey"), a write that finds no space on any root is refused *)
(* after the first chunk reached the disk ("reject_nospace").  Once the    *)
(* verdict has reached the client (after `p` units were consumed), the     *)
(* next Send on the stream returns io.EOF and the verdict itself is what   *)
(* CloseAndRecv returns.  SendVariant "asfound": the stream writer returns *)
(* the io.EOF of Send, which the client maps to ErrUnknown; "repaired":    *)
(* it fetches the verdict; "halfclose" (a first repair, withdrawn): it     *)
(* fetches the verdict with CloseAndRecv, i.e. it half-closes a stream it  *)
(* could not write to -- and after a cut connection that the client has    *)
(* re-dialled, gRPC may replay what was sent so far on the new connection, *)
(* so that the half-close ends a stream that carries a prefix.             *)
(***************************************************************************)
EXTENDS Integers, Sequences, FiniteSets, TLC, Json

CONSTANTS Lens, Kinds, Variant, SendVariant

Chunk == 2
CopyBuf == 32     \* the server hands the content to the file in pieces of 32 KiB

VARIABLES len, kind, p,       \* the scenario
          consumed,           \* units of the source the client has read
          sent,               \* units the server has received (full chunks, or everything after Close)
          cstate, sstate,     \* "run" | "err" | "ok"     /   "recv" | "eof" | "fail" | "commit"
          key,                \* "old" | "new" | "prefix" (a truncated content was committed)
          arrived,            \* the server's early verdict has reached the client
          class               \* error class the client call returned: "" | "ok" | "fault" | "emptykey" | "nospace" | "unknown"

vars == <<len, kind, p, consumed, sent, cstate, sstate, key, arrived, class>>

IsReject == kind \in {"reject_emptykey", "reject_nospace"}
Verdict == IF kind = "reject_emptykey" THEN "emptykey" ELSE "nospace"
SendFails == IF SendVariant = "asfound" THEN "unknown" ELSE Verdict

Init ==
  /\ len \in Lens /\ kind \in Kinds /\ p \in 0..len
  /\ (kind = "none" => p = len)
  /\ (kind = "reject_nospace" => p >= CopyBuf)    \* the server writes (and fails) once its copy buffer is full
  /\ consumed = 0 /\ sent = 0 /\ cstate = "run" /\ sstate = "recv" /\ key = "old" /\ arrived = FALSE /\ class = ""

(* the client consumes one more unit; a full chunk is sent as soon as the writer holds one *)
ClientCopy ==
  /\ cstate = "run" /\ consumed < len
  /\ IF IsReject THEN consumed = p => arrived ELSE ~(kind # "none" /\ consumed = p)
  /\ consumed' = consumed + 1
  /\ IF (consumed + 1) % Chunk = 0 /\ arrived
     THEN cstate' = "err" /\ class' = SendFails /\ UNCHANGED sent           \* Send returns io.EOF
     ELSE /\ sent' = IF (consumed + 1) % Chunk = 0 THEN consumed + 1 ELSE sent
          /\ UNCHANGED <<cstate, class>>
  /\ UNCHANGED <<len, kind, p, sstate, key, arrived>>

(* the fault: the client returns the error to its caller; the stream is never half-closed *)
ClientFault ==
  /\ cstate = "run" /\ kind # "none" /\ ~IsReject /\ consumed = p
  /\ cstate' = "err" /\ class' = "fault"
  /\ UNCHANGED <<len, kind, p, consumed, sent, sstate, key, arrived>>

(* the early verdict: the server ends the call ...                    *)
ServerReject ==
  /\ IsReject /\ sstate = "recv"
  /\ kind = "reject_nospace" => sent >= CopyBuf
  /\ sstate' = "rejected"
  /\ UNCHANGED <<len, kind, p, consumed, sent, cstate, key, arrived, class>>
(* ... and the client, which has consumed p units by then, learns of it *)
VerdictArrives ==
  /\ sstate = "rejected" /\ ~arrived /\ consumed = p /\ cstate = "run"
  /\ arrived' = TRUE
  /\ UNCHANGED <<len, kind, p, consumed, sent, cstate, sstate, key, class>>

(* end of the source: Close sends the remainder, half-closes, and waits *)
ClientClose ==
  /\ cstate = "run" /\ consumed = len
  /\ \/ /\ kind = "none"
        /\ sent' = len /\ cstate' = "closing"
        /\ UNCHANGED <<len, kind, p, consumed, sstate, key, arrived, class>>
     \/ /\ IsReject /\ arrived
        /\ cstate' = "err"
        /\ class' = IF len % Chunk # 0 THEN SendFails ELSE Verdict     \* the remainder is sent first; else CloseAndRecv
        /\ UNCHANGED <<len, kind, p, consumed, sent, sstate, key, arrived>>

(* the server's stream reader: io.EOF after a half-close, another error after a fault *)
ServerEnd ==
  /\ sstate = "recv" /\ cstate \in {"closing", "err"} /\ ~IsReject
  /\ sstate' = IF cstate = "closing" THEN "eof"
               ELSE IF Variant = "asfound" THEN "eof" ELSE "fail"
  /\ UNCHANGED <<len, kind, p, consumed, sent, cstate, key, arrived, class>>

(* a cut, a transparent replay on a fresh connection, and a client that half-closes what it could not write *)
ServerReplayEnd ==
  /\ sstate = "recv" /\ cstate = "err" /\ kind = "cut" /\ SendVariant = "halfclose"
  /\ sstate' = "eof"
  /\ UNCHANGED <<len, kind, p, consumed, sent, cstate, key, arrived, class>>

(* store.Set finished copying: content record, version record: the key changes *)
ServerCommit ==
  /\ sstate = "eof"
  /\ key' = IF sent = len /\ cstate = "closing" THEN "new" ELSE "prefix"
  /\ sstate' = "commit"
  /\ cstate' = IF cstate = "closing" THEN "ok" ELSE cstate
  /\ class' = IF cstate = "closing" THEN "ok" ELSE class
  /\ UNCHANGED <<len, kind, p, consumed, sent, arrived>>

Finished == (sstate \in {"commit", "fail", "rejected"}) /\ cstate \in {"ok", "err"}
Done == Finished /\ UNCHANGED vars
Next == ClientCopy \/ ClientFault \/ ClientClose \/ ServerReject \/ VerdictArrives \/ ServerEnd \/ ServerReplayEnd \/ ServerCommit \/ Done
Spec == Init /\ [][Next]_vars

(* ====================== C10 ====================== *)
(* an upload that returned an error left the key as it was; one that returned nil stored the whole source *)
NoTrace == Finished => (cstate = "err" => key = "old") /\ (cstate = "ok" => key = "new")
(* nobody ever sees a truncated content *)
NeverPartial == key # "prefix"

(* ====================== C11 over a stream ====================== *)
(* a refused upload returns the server's verdict, not something else *)
VerdictPreserved == Finished /\ IsReject => class = Verdict

Scenario == [len |-> len, kind |-> kind, p |-> p, client |-> cstate, key |-> key, received |-> sent, class |-> class]
Emit == Finished' /\ ~Finished => PrintT(<<"B", ToJson(<<[len |-> len, kind |-> kind, p |-> p, client |-> cstate', key |-> key', received |-> sent', class |-> class']>>)>>)
Cex == PrintT(<<"X", ToJson(<<Scenario>>)>>)
XNoTrace == NoTrace \/ ~Cex
XNeverPartial == NeverPartial \/ ~Cex
XVerdictPreserved == VerdictPreserved \/ ~Cex
=============================================================================
