------------------------------- MODULE Upload -------------------------------
(***************************************************************************)
(* C10, transport side -- an upload through the gRPC client                *)
(* (pkg/external/db/set_reader.go, create.go -> streamwriter -> server     *)
(* delivery/grpc/store/set.go -> streamreader -> store.Set).               *)
(*                                                                         *)
(* The client copies the source into the stream writer, which sends a      *)
(* message whenever it holds a full chunk (2048 bytes; 2 units here) and   *)
(* the remainder on Close, then half-closes and waits for the verdict.     *)
(* The server stores what its stream reader delivers and commits when the  *)
(* reader reports end of stream.                                           *)
(*                                                                         *)
(* Faults after `p` units of the source were consumed: the source reader   *)
(* returns an error ("readerr"), the caller's context is cancelled         *)
(* ("cancel"), the connection breaks ("cut").  In all three the client     *)
(* stops without half-closing and the server's Recv returns an error that  *)
(* is not io.EOF, after the full chunks sent so far.                       *)
(*                                                                         *)
(* Variant "asfound": the stream reader turns ANY Recv error into end of   *)
(* stream (streamreader/reader.go:28-31): the server commits the prefix.   *)
(* "repaired": a Recv error other than io.EOF fails the read.              *)
(***************************************************************************)
EXTENDS Integers, Sequences, FiniteSets, TLC, Json

CONSTANTS Lens, Kinds, Variant

Chunk == 2

VARIABLES len, kind, p,       \* the scenario
          consumed,           \* units of the source the client has read
          sent,               \* units the server has received (full chunks, or everything after Close)
          cstate, sstate,     \* "run" | "err" | "ok"     /   "recv" | "eof" | "fail" | "commit"
          key                 \* "old" | "new" | "prefix" (a truncated content was committed)

vars == <<len, kind, p, consumed, sent, cstate, sstate, key>>

Init ==
  /\ len \in Lens /\ kind \in Kinds /\ p \in 0..len
  /\ (kind = "none" => p = len)
  /\ consumed = 0 /\ sent = 0 /\ cstate = "run" /\ sstate = "recv" /\ key = "old"

(* the client consumes one more unit; a full chunk is sent as soon as the writer holds one *)
ClientCopy ==
  /\ cstate = "run" /\ consumed < len /\ ~(kind # "none" /\ consumed = p)
  /\ consumed' = consumed + 1
  /\ sent' = IF (consumed + 1) % Chunk = 0 THEN consumed + 1 ELSE sent
  /\ UNCHANGED <<len, kind, p, cstate, sstate, key>>

(* the fault: the client returns the error to its caller; the stream is never half-closed *)
ClientFault ==
  /\ cstate = "run" /\ kind # "none" /\ consumed = p
  /\ cstate' = "err"
  /\ UNCHANGED <<len, kind, p, consumed, sent, sstate, key>>

(* end of the source: Close sends the remainder, half-closes, and waits *)
ClientClose ==
  /\ cstate = "run" /\ consumed = len /\ kind = "none"
  /\ sent' = len /\ cstate' = "closing"
  /\ UNCHANGED <<len, kind, p, consumed, sstate, key>>

(* the server's stream reader: io.EOF after a half-close, another error after a fault *)
ServerEnd ==
  /\ sstate = "recv" /\ cstate \in {"closing", "err"}
  /\ sstate' = IF cstate = "closing" THEN "eof"
               ELSE IF Variant = "asfound" THEN "eof" ELSE "fail"
  /\ UNCHANGED <<len, kind, p, consumed, sent, cstate, key>>

(* store.Set finished copying: content record, version record: the key changes *)
ServerCommit ==
  /\ sstate = "eof"
  /\ key' = IF sent = len /\ cstate = "closing" THEN "new" ELSE "prefix"
  /\ sstate' = "commit"
  /\ cstate' = IF cstate = "closing" THEN "ok" ELSE cstate
  /\ UNCHANGED <<len, kind, p, consumed, sent>>

Finished == (sstate \in {"commit", "fail"}) /\ cstate \in {"ok", "err"}
Done == Finished /\ UNCHANGED vars
Next == ClientCopy \/ ClientFault \/ ClientClose \/ ServerEnd \/ ServerCommit \/ Done
Spec == Init /\ [][Next]_vars

(* ====================== C10 ====================== *)
(* an upload that returned an error left the key as it was; one that returned nil stored the whole source *)
NoTrace == Finished => (cstate = "err" => key = "old") /\ (cstate = "ok" => key = "new")
(* nobody ever sees a truncated content *)
NeverPartial == key # "prefix"

Scenario == [len |-> len, kind |-> kind, p |-> p, client |-> cstate, key |-> key, received |-> sent]
Emit == Finished' /\ ~Finished => PrintT(<<"B", ToJson(<<[len |-> len, kind |-> kind, p |-> p, client |-> cstate', key |-> key', received |-> sent']>>)>>)
Cex == PrintT(<<"X", ToJson(<<Scenario>>)>>)
XNoTrace == NoTrace \/ ~Cex
XNeverPartial == NeverPartial \/ ~Cex
=============================================================================
