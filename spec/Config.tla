------------------------------- MODULE Config -------------------------------
(***************************************************************************)
(* C20 -- configuration layering (config/config.go): per setting           *)
(*   default < configuration file < non-empty environment variable,        *)
(* malformed numbers/durations are errors, and Storage.Valid.              *)
(* A configuration case gives every setting one of the states below; TLC   *)
(* enumerates all cases with at most Width settings away from "A" and      *)
(* emits the expected outcome, which the harness compares with             *)
(* config.ParseConfig + Storage.Valid on a real file and environment.      *)
(***************************************************************************)
EXTENDS Integers, Sequences, FiniteSets, TLC, Json

CONSTANTS Width

Settings == {"port", "dbPath", "dirCount", "rootDirs", "gcPeriod", "numWorkers", "sendDuration"}
Numeric  == {"port", "dirCount", "gcPeriod", "numWorkers", "sendDuration"}   \* parsed: can be malformed

(* A absent | F file | E env | B both | EE env set but empty | EF env empty, file present            *)
(* MF malformed in file | ME malformed in env | MB file fine, env malformed                          *)
(* FZ file gives the empty / too-low value that matters to Valid | EZ env gives the too-low value    *)
States(s) ==
  {"A", "F", "E", "B", "EE", "EF"}
  \cup (IF s \in Numeric THEN {"MF", "ME", "MB"} ELSE {})
  \cup (IF s = "rootDirs" THEN {"MF"} ELSE {})
  \cup (IF s \in {"dbPath", "rootDirs", "dirCount"} THEN {"FZ"} ELSE {})
  \cup (IF s = "dirCount" THEN {"EZ"} ELSE {})

(* which source supplies the value: "def" | "file" | "env" | "zero" (FZ) | "low" (EZ) *)
Source(st) ==
  CASE st \in {"A", "EE"} -> "def"
    [] st \in {"F", "EF"} -> "file"
    [] st \in {"E", "B"}  -> "env"
    [] st = "FZ"          -> "zero"
    [] st = "EZ"          -> "low"
    [] OTHER              -> "err"

NonA == {"F", "E", "B", "EE", "EF", "MF", "ME", "MB", "FZ", "EZ"}
Cases == UNION {{[s \in Settings |-> IF s \in S THEN f[s] ELSE "A"] :
                   f \in {h \in [S -> NonA] : \A s \in S : h[s] \in States(s)}} :
                S \in {T \in SUBSET Settings : Cardinality(T) <= Width}}

ParseError(c) == \E s \in Settings : c[s] \in {"MF", "ME", "MB"}

(* Storage.Valid: empty db path, then the directory limit clamp, then empty roots *)
ValidResult(c) ==
  IF Source(c["dbPath"]) = "zero" THEN "emptydbpath"
  ELSE IF Source(c["rootDirs"]) = "zero" THEN "emptyroots"
  ELSE "ok"
(* the clamp is applied unless the db path check returned first *)
Clamped(c) == Source(c["dbPath"]) # "zero" /\ Source(c["dirCount"]) \in {"zero", "low"}

VARIABLES case, done
vars == <<case, done>>
Init == case \in Cases /\ done = FALSE
Next == ~done /\ done' = TRUE /\ UNCHANGED case

Emit == PrintT(<<"B", ToJson(<<[c |-> case, parse |-> IF ParseError(case) THEN "error" ELSE "ok",
                                src |-> [s \in Settings |-> Source(case[s])],
                                valid |-> ValidResult(case), clamped |-> Clamped(case)]>>)>>)

(* the layering rule itself, stated declaratively: environment beats file beats default *)
Layering ==
  \A s \in Settings :
    LET st == case[s]
        inEnv  == st \in {"E", "B", "EZ"}             \* set and non-empty and well-formed
        inFile == st \in {"F", "B", "EF", "FZ"}
    IN ~ParseError(case) =>
         /\ inEnv => Source(st) \in {"env", "low"}
         /\ (~inEnv /\ inFile) => Source(st) \in {"file", "zero"}
         /\ (~inEnv /\ ~inFile) => Source(st) = "def"
=============================================================================
