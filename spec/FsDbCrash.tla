----------------------------- MODULE FsDbCrash -----------------------------
(***************************************************************************)
(* C04 -- the persistence grain of fs_db: every persistent mutation is one *)
(* step, the process can be killed before any of them (also inside         *)
(* recovery), recovery is usecase/core/load.go followed by the cleaner.    *)
(*                                                                         *)
(*   Set      store/set.go        create file, write, close,               *)
(*                                bset fileContent/<cid>, bset file/<cid>  *)
(*   Delete   store/delete.go     bset file/<cid>            (tombstone)   *)
(*   Commit   core/update_tx.go   ONE Badger transaction re-tagging the    *)
(*                                last version of every written key        *)
(*   cleaner  cleaner/delete_files.go  per version with a content record:  *)
(*                                remove file, bdel fileContent, bdel file *)
(*   Load     core/load.go        per key the Main record with the highest *)
(*                                sequence wins; everything else is handed *)
(*                                to the cleaner                           *)
(* The client waits for the cleaner between two calls (as the harness      *)
(* does), so the sequence of mutation labels of a workload is determined   *)
(* and can be compared with the labels the real code logs.                 *)
(*                                                                         *)
(* Ghost: `acked` = committed view after the last acknowledged call,       *)
(* `infl` = the effect of the call in progress.  C04: after recovery the   *)
(* view is `acked`, or `acked` overridden by the WHOLE of `infl`.          *)
(***************************************************************************)
EXTENDS Integers, Sequences, FiniteSets, TLC, Json

CONSTANTS Keys, MaxOps, MaxCrash,
          SwapRecordOrder,   \* seeded design error: version record before the content record
          SplitCommit        \* seeded design error: one Badger update per key instead of one transaction

Main == 0
T == 1      \* the transaction of the workload

VARIABLES dfile, crec, frec,             \* durable: content files (cid -> "partial" | "complete"), content records, version records
          seq, mem, txmem, queue,        \* volatile: counter, committed index, the transaction's index, cleaner queue
          pc, cur, ncid, nops, crashes, txopen,
          acked, infl,                   \* ghost
          hist, labels                   \* the workload so far, and the mutation labels of the call in progress

vars == <<dfile, crec, frec, seq, mem, txmem, queue, pc, cur, ncid, nops, crashes, txopen, acked, infl, hist, labels>>

Fn(S, Op(_)) == TLCEval([x \in S |-> Op(x)])
Empty == Fn(Keys, LAMBDA k : <<>>)
NoInfl == Fn({}, LAMBDA k : 0)
Last(s) == s[Len(s)]

Init ==
  /\ dfile = Fn({}, LAMBDA c : "") /\ crec = {} /\ frec = Fn({}, LAMBDA c : 0)
  /\ seq = 1 /\ mem = Empty /\ txmem = Empty /\ queue = {}
  /\ pc = "idle" /\ cur = [op |-> "none"] /\ ncid = 0 /\ nops = 0 /\ crashes = 0 /\ txopen = FALSE
  /\ acked = Fn(Keys, LAMBDA k : 0) /\ infl = NoInfl
  /\ hist = <<>> /\ labels = <<>>

(* committed value of k as a client reads it: content id, 0 = not found, -1 = listed but unreadable or incomplete *)
Read(k) == IF mem[k] = <<>> THEN 0
           ELSE LET c == Last(mem[k]).cid IN
                IF c \in crec /\ c \in DOMAIN dfile /\ dfile[c] = "complete" THEN c
                ELSE IF c \in crec THEN -1 ELSE 0
View == Fn(Keys, LAMBDA k : Read(k))

Idle == pc = "idle" /\ queue = {} /\ nops < MaxOps

Begin(op) == nops' = nops + 1 /\ labels' = <<>> /\ cur' = op

(* ---------------- the client starts a call ---------------- *)
StartSet(t, k) ==
  /\ Idle /\ (t = T => txopen)
  /\ Begin([op |-> "set", t |-> t, k |-> k, cid |-> ncid + 1]) /\ ncid' = ncid + 1
  /\ pc' = "s_create"
  /\ infl' = IF t = Main THEN (k :> (ncid + 1)) ELSE NoInfl
  /\ UNCHANGED <<dfile, crec, frec, seq, mem, txmem, queue, crashes, txopen, acked, hist>>
StartDel(t, k) ==
  /\ Idle /\ (t = T => txopen)
  /\ Begin([op |-> "del", t |-> t, k |-> k, cid |-> ncid + 1]) /\ ncid' = ncid + 1
  /\ pc' = "s_frec"
  /\ infl' = IF t = Main THEN (k :> 0) ELSE NoInfl
  /\ UNCHANGED <<dfile, crec, frec, seq, mem, txmem, queue, crashes, txopen, acked, hist>>
StartBegin ==
  /\ Idle /\ ~txopen /\ Begin([op |-> "begin", t |-> T, k |-> "", cid |-> 0])
  /\ txopen' = TRUE /\ seq' = seq + 1 /\ pc' = "ack" /\ infl' = NoInfl
  /\ UNCHANGED <<dfile, crec, frec, mem, txmem, queue, ncid, crashes, acked, hist>>
TxKeys == {k \in Keys : txmem[k] # <<>>}
TxVal(k) == LET c == Last(txmem[k]).cid IN IF c \in crec THEN c ELSE 0
StartCommit ==
  /\ Idle /\ txopen /\ Begin([op |-> "commit", t |-> T, k |-> "", cid |-> 0, todo |-> TxKeys])
  /\ txopen' = FALSE
  /\ pc' = IF TxKeys = {} THEN "ack" ELSE "c_txn"
  /\ infl' = Fn(TxKeys, LAMBDA k : TxVal(k))
  /\ UNCHANGED <<dfile, crec, frec, seq, mem, txmem, queue, ncid, crashes, acked, hist>>
StartRollback ==
  /\ Idle /\ txopen /\ Begin([op |-> "rollback", t |-> T, k |-> "", cid |-> 0])
  /\ txopen' = FALSE /\ pc' = "ack" /\ infl' = NoInfl
  /\ queue' = UNION {{[v |-> txmem[k][i], st |-> 0] : i \in 1..Len(txmem[k])} : k \in Keys}
  /\ txmem' = Empty
  /\ UNCHANGED <<dfile, crec, frec, seq, mem, ncid, crashes, acked, hist>>
(* the collector with no transaction open: everything but the latest version of each key goes *)
StartGC ==
  /\ Idle /\ ~txopen /\ Begin([op |-> "gc", t |-> Main, k |-> "", cid |-> 0])
  /\ LET dead == UNION {{mem[k][i] : i \in 1..(Len(mem[k]) - 1)} : k \in Keys}
     IN /\ queue' = {[v |-> d, st |-> 0] : d \in dead}
        /\ mem' = Fn(Keys, LAMBDA k : IF mem[k] = <<>> THEN <<>> ELSE <<Last(mem[k])>>)
  /\ seq' = seq + 1 /\ pc' = "ack" /\ infl' = NoInfl
  /\ UNCHANGED <<dfile, crec, frec, txmem, ncid, crashes, txopen, acked, hist>>

Lab(x) == labels' = Append(labels, x)

(* ---------------- persistent steps of Set / Delete ---------------- *)
SCreate == /\ pc = "s_create" /\ dfile' = TLCEval(dfile @@ (cur.cid :> "partial")) /\ pc' = "s_close" /\ Lab("create")
           /\ UNCHANGED <<crec, frec, seq, mem, txmem, queue, cur, ncid, nops, crashes, txopen, acked, infl, hist>>
(* write + close: the content is complete once the file is closed *)
SClose == /\ pc = "s_close" /\ dfile' = TLCEval([dfile EXCEPT ![cur.cid] = "complete"]) /\ Lab("write+close")
          /\ pc' = IF SwapRecordOrder THEN "s_frec" ELSE "s_crec"
          /\ UNCHANGED <<crec, frec, seq, mem, txmem, queue, cur, ncid, nops, crashes, txopen, acked, infl, hist>>
SCrec == /\ pc = "s_crec" /\ crec' = crec \cup {cur.cid} /\ Lab("bset:fileContent")
         /\ pc' = IF SwapRecordOrder THEN "ack" ELSE "s_frec"
         /\ UNCHANGED <<dfile, frec, seq, mem, txmem, queue, cur, ncid, nops, crashes, txopen, acked, infl, hist>>
SFrec == /\ pc = "s_frec" /\ seq' = seq + 1 /\ Lab("bset:file")
         /\ frec' = TLCEval(frec @@ (cur.cid :> [seq |-> seq + 1, tx |-> cur.t, key |-> cur.k]))
         /\ IF cur.t = Main
            THEN mem' = TLCEval([mem EXCEPT ![cur.k] = Append(@, [seq |-> seq + 1, cid |-> cur.cid])]) /\ txmem' = txmem
            ELSE txmem' = TLCEval([txmem EXCEPT ![cur.k] = Append(@, [seq |-> seq + 1, cid |-> cur.cid])]) /\ mem' = mem
         /\ pc' = IF SwapRecordOrder /\ cur.op = "set" THEN "s_crec" ELSE "ack"
         /\ UNCHANGED <<dfile, crec, queue, cur, ncid, nops, crashes, txopen, acked, infl, hist>>

(* ---------------- Commit: one Badger transaction ---------------- *)
Retag(ks, fr, s0) ==
  LET ord == CHOOSE f \in [ks -> 1..Cardinality(ks)] : \A a, b \in ks : a # b => f[a] # f[b]
  IN Fn(DOMAIN fr, LAMBDA c : IF \E k \in ks : Last(txmem[k]).cid = c
                               THEN LET k == CHOOSE k \in ks : Last(txmem[k]).cid = c
                                    IN [seq |-> s0 + ord[k], tx |-> Main, key |-> k]
                               ELSE fr[c])
CTxn == /\ pc = "c_txn"
        /\ LET ks == IF SplitCommit THEN {CHOOSE k \in cur.todo : TRUE} ELSE cur.todo
               n == Cardinality(ks)
               ord == CHOOSE f \in [ks -> 1..n] : \A a, b \in ks : a # b => f[a] # f[b]
           IN /\ frec' = Retag(ks, frec, seq + n)             \* phase 1 draws n numbers, phase 2 the n publishing ones
              /\ seq' = seq + 2 * n
              /\ mem' = Fn(Keys, LAMBDA k : IF k \in ks THEN Append(mem[k], [seq |-> seq + n + ord[k], cid |-> Last(txmem[k]).cid]) ELSE mem[k])
              /\ queue' = queue \cup UNION {{[v |-> txmem[k][i], st |-> 0] : i \in 1..(Len(txmem[k]) - 1)} : k \in ks}
              /\ txmem' = Fn(Keys, LAMBDA k : IF k \in ks THEN <<>> ELSE txmem[k])
              /\ IF cur.todo \ ks = {} THEN pc' = "ack" /\ cur' = cur
                                      ELSE pc' = "c_txn" /\ cur' = [cur EXCEPT !.todo = @ \ ks]
        /\ Lab("btxn")
        /\ UNCHANGED <<dfile, crec, ncid, nops, crashes, txopen, acked, infl, hist>>

(* ---------------- the call returns: acknowledged ---------------- *)
Applied == Fn(Keys, LAMBDA k : IF k \in DOMAIN infl THEN infl[k] ELSE acked[k])
Ack == /\ pc = "ack"
       /\ acked' = Applied /\ infl' = NoInfl /\ pc' = "idle"
       /\ hist' = Append(hist, [op |-> cur.op, t |-> cur.t, k |-> cur.k, c |-> cur.cid, labels |-> labels,
                                cleaned |-> Cardinality({q \in queue : q.v.cid \in crec}),
                                view |-> Applied])
       /\ UNCHANGED <<dfile, crec, frec, seq, mem, txmem, queue, cur, ncid, nops, crashes, txopen, labels>>

(* ---------------- cleaner (after the call returned; the client waits for it) ---------------- *)
Clean(q) == /\ q \in queue /\ pc = "idle"
            /\ LET c == q.v.cid IN
               IF c \notin crec /\ q.st = 0
               THEN queue' = queue \ {q} /\ UNCHANGED <<dfile, crec, frec>>          \* no content record: returns early
               ELSE CASE q.st = 0 -> /\ dfile' = Fn(DOMAIN dfile \ {c}, LAMBDA d : dfile[d])
                                     /\ queue' = (queue \ {q}) \cup {[q EXCEPT !.st = 1]} /\ UNCHANGED <<crec, frec>>
                      [] q.st = 1 -> /\ crec' = crec \ {c}
                                     /\ queue' = (queue \ {q}) \cup {[q EXCEPT !.st = 2]} /\ UNCHANGED <<dfile, frec>>
                      [] OTHER    -> /\ frec' = Fn(DOMAIN frec \ {c}, LAMBDA d : frec[d])
                                     /\ queue' = queue \ {q} /\ UNCHANGED <<dfile, crec>>
            /\ UNCHANGED <<seq, mem, txmem, pc, cur, ncid, nops, crashes, txopen, acked, infl, hist, labels>>

(* ---------------- crash and recovery ---------------- *)
Crash == /\ crashes < MaxCrash /\ pc # "recover"
         /\ crashes' = crashes + 1
         /\ mem' = Empty /\ txmem' = Empty /\ queue' = {} /\ seq' = 0 /\ txopen' = FALSE
         /\ pc' = "recover" /\ cur' = [op |-> "none"]
         /\ UNCHANGED <<dfile, crec, frec, ncid, nops, acked, infl, hist, labels>>
MainRecs(k) == {c \in DOMAIN frec : frec[c].tx = Main /\ frec[c].key = k}
Winner(k) == IF MainRecs(k) = {} THEN 0 ELSE CHOOSE c \in MainRecs(k) : \A d \in MainRecs(k) : frec[d].seq <= frec[c].seq
Recover == /\ pc = "recover"
           /\ LET winners == {Winner(k) : k \in Keys} \ {0}
                  losers == DOMAIN frec \ winners
                  maxs == IF winners = {} THEN 1 ELSE CHOOSE s \in {frec[c].seq : c \in winners} : \A c \in winners : frec[c].seq <= s
              IN /\ mem' = Fn(Keys, LAMBDA k : IF Winner(k) = 0 THEN <<>> ELSE <<[seq |-> frec[Winner(k)].seq, cid |-> Winner(k)]>>)
                 /\ queue' = {[v |-> [seq |-> frec[c].seq, cid |-> c], st |-> 0] : c \in losers}
                 /\ seq' = maxs
           /\ txmem' = Empty /\ pc' = "check"
           /\ UNCHANGED <<dfile, crec, frec, cur, ncid, nops, crashes, txopen, acked, infl, hist, labels>>
(* the ghost resolves the call that was in progress from what is observed *)
Check == /\ pc = "check"
         /\ acked' = IF View = Applied THEN Applied ELSE acked
         /\ infl' = NoInfl /\ pc' = "idle"
         /\ UNCHANGED <<dfile, crec, frec, seq, mem, txmem, queue, cur, ncid, nops, crashes, txopen, hist, labels>>

Next == \/ \E k \in Keys : StartSet(Main, k) \/ StartDel(Main, k) \/ StartSet(T, k) \/ StartDel(T, k)
        \/ StartBegin \/ StartCommit \/ StartRollback \/ StartGC
        \/ SCreate \/ SClose \/ SCrec \/ SFrec \/ CTxn \/ Ack
        \/ \E q \in queue : Clean(q)
        \/ Crash \/ Recover \/ Check
Spec == Init /\ [][Next]_vars

(* ====================== C04 ====================== *)
(* right after recovery: the acknowledged state, possibly with the WHOLE call that was in progress *)
RecoveredIsAcked == pc = "check" => (View = acked \/ View = Applied)
(* at rest the view is exactly what was acknowledged; nothing of the open transaction is in it *)
IdleIsAcked == pc = "idle" => View = acked
(* a listed key is always readable and complete, also while the cleaner works and during recovery *)
ListedIsReadable == \A k \in Keys : Read(k) # -1

(* ---- emission: complete workloads (no crash) with their labels ---- *)
EmitFinal == (nops' = MaxOps /\ pc' = "idle" /\ hist' # hist /\ crashes' = 0) => PrintT(<<"B", ToJson(hist')>>)

CView == <<dfile, crec, frec, seq, mem, txmem, queue, pc, cur, ncid, nops, crashes, txopen, acked, infl>>
=============================================================================
