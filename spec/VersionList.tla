---------------------------- MODULE VersionList ----------------------------
(***************************************************************************)
(* C18 -- the per-key version list of model/core/file.go: a doubly linked  *)
(* list with an array mirror, the snapshot lookup by binary search over    *)
(* the mirror, and the collector's iteration.                              *)
(*                                                                         *)
(* BinSearch is a branch-for-branch transcription of binarySearch          *)
(* (file.go:124-142); TLC checks it against the declarative "last version  *)
(* below the probe" for every list the bounded state machine reaches and   *)
(* every probe, and checks the collect rule against its declarative        *)
(* meaning.  Every behaviour is emitted and executed on the real           *)
(* core.Transaction through the bridge (pkg/verif.NewVList).               *)
(*                                                                         *)
(* Mode "machine": PushBack / PopFront / PopBack / Collect from the empty  *)
(* list; mode "subsets": every strictly increasing list over 1..N, one     *)
(* lookup table each.                                                      *)
(***************************************************************************)
EXTENDS Integers, Sequences, FiniteSets, TLC, Json

CONSTANTS N,          \* sequence numbers come from 1..N
          MaxSteps,
          Mode        \* "machine" | "subsets"

VARIABLES list,       \* the linked list, oldest first (sequence of sequence numbers)
          arr,        \* the array mirror
          steps, hist

vars == <<list, arr, steps, hist>>

Last(s) == s[Len(s)]

(* ---- transcription of binarySearch(arr, seq): returns the found value or 0 (nil) ---- *)
RECURSIVE BinSearch(_, _)
BinSearch(a, probe) ==
  IF Len(a) = 0 THEN 0
  ELSE LET n == Len(a) \div 2                       \* n = len(arr) / 2, 0-based index; a[n+1] in TLA+
       IN IF ~(a[n + 1] < probe)                     \* !arr[n].v.Seq.Before(seq)
          THEN BinSearch(SubSeq(a, 1, n), probe)     \* arr = arr[:n]
          ELSE IF n = Len(a) - 1 \/ ~(a[n + 2] < probe)   \* n == len(arr)-1 || !arr[n+1].v.Seq.Before(seq)
               THEN a[n + 1]
               ELSE BinSearch(SubSeq(a, n + 2, Len(a)), probe)   \* arr = arr[n+1:]

(* ---- what it must compute ---- *)
LastBelow(s, probe) ==
  LET idx == {i \in 1..Len(s) : s[i] < probe}
  IN IF idx = {} THEN 0 ELSE s[CHOOSE i \in idx : \A j \in idx : j <= i]

Latest(s) == IF s = <<>> THEN 0 ELSE Last(s)

(* ---- transcription of IterateBeforeSeq + PopFront as the collector uses them (core/delete_old.go) ---- *)
(* yield the front while the next node exists (its seq is not the zero sentinel) and next.seq <= horizon *)
RECURSIVE CollectRun(_, _)
CollectRun(s, h) ==
  IF Len(s) >= 2 /\ ~(s[2] > h) THEN <<s[1]>> \o CollectRun(Tail(s), h) ELSE <<>>

(* ---- what collect must do: remove exactly the versions that have a successor not newer than h ---- *)
Collected(s, h) == {s[i] : i \in {j \in 1..Len(s) : j < Len(s) /\ s[j + 1] <= h}}

Probes == 0..(N + 1)
(* probes recorded for the replay: all of them for small domains, a stride plus the neighbourhood of *)
(* both ends of the list for long simulated lists                                                    *)
LogProbes(s) == IF N <= 16 THEN Probes
                ELSE {p \in Probes : p % (N \div 16) = 0} \cup {N + 1}
                     \cup (IF s = <<>> THEN {} ELSE {s[1], s[1] + 1, s[Len(s)], s[Len(s)] + 1, s[(Len(s) + 1) \div 2], s[(Len(s) + 1) \div 2] + 1})

Log(op, x, res) ==
  hist' = Append(hist, [op |-> op, x |-> x, res |-> res, seqs |-> list',
                        latest |-> Latest(list'), lb |-> [p \in LogProbes(list') |-> LastBelow(list', p)]])

PushBack(s) ==
  /\ Mode = "machine"
  /\ s > Latest(list)
  /\ list' = Append(list, s) /\ arr' = Append(arr, s)            \* f.arr = append(f.arr, n); f.l.PushBack(n)
  /\ Log("push", s, 0)

PopFront ==
  /\ Mode = "machine"
  /\ IF list = <<>>
     THEN UNCHANGED <<list, arr>> /\ Log("popfront", 0, 0)
     ELSE /\ list' = Tail(list)
          /\ arr' = SubSeq(arr, 2, Len(arr))                      \* copy(f.arr, f.arr[1:]); f.arr = f.arr[:len-1]
          /\ Log("popfront", 0, list[1])

PopBack ==
  /\ Mode = "machine"
  /\ IF list = <<>>
     THEN UNCHANGED <<list, arr>> /\ Log("popback", 0, 0)
     ELSE /\ list' = SubSeq(list, 1, Len(list) - 1)
          /\ arr' = SubSeq(arr, 1, Len(arr) - 1)
          /\ Log("popback", 0, Last(list))

Collect(h) ==
  /\ Mode = "machine"
  /\ LET run == CollectRun(list, h)
     IN /\ list' = SubSeq(list, Len(run) + 1, Len(list))
        /\ arr' = SubSeq(arr, Len(run) + 1, Len(arr))
        /\ Log("collect", h, run)

(* mode "subsets": one step that only records the lookup table of the initial list *)
Record ==
  /\ Mode = "subsets" /\ steps = 0
  /\ UNCHANGED <<list, arr>>
  /\ Log("table", 0, 0)

Step(A) == steps < MaxSteps /\ steps' = steps + 1 /\ A

Next ==
  \/ \E s \in 1..N : Step(PushBack(s))
  \/ Step(PopFront)
  \/ Step(PopBack)
  \/ \E h \in 0..(N + 1) : Step(Collect(h))
  \/ Step(Record)

RECURSIVE IncSeqs(_, _)
(* all strictly increasing sequences over lo..N *)
IncSeqs(lo, hi) == IF lo > hi THEN {<<>>}
                   ELSE IncSeqs(lo + 1, hi) \cup {<<lo>> \o s : s \in IncSeqs(lo + 1, hi)}

Init ==
  /\ steps = 0 /\ hist = <<>>
  /\ IF Mode = "subsets" THEN list \in IncSeqs(1, N) ELSE list = <<>>
  /\ arr = list

Spec == Init /\ [][Next]_vars

Emit == PrintT(<<"B", ToJson(<<[op |-> "init", x |-> 0, res |-> 0, seqs |-> IF Mode = "subsets" THEN list ELSE <<>>,
                                 latest |-> 0, lb |-> [p \in Probes |-> 0]]>> \o hist')>>)
EmitFinal == steps' = MaxSteps => Emit

(* ====================== properties ====================== *)
MirrorInSync == arr = list

Sorted == \A i \in 2..Len(list) : list[i - 1] < list[i]

(* the transcribed search is the declarative last-below, for every probe *)
SearchCorrect == \A p \in Probes : BinSearch(arr, p) = LastBelow(list, p)

(* the transcribed collector run removes exactly the versions with a successor <= horizon, oldest first, *)
(* and leaves every lookup at or after the horizon unchanged                                              *)
CollectCorrect ==
  \A h \in 0..(N + 1) :
    LET run == CollectRun(list, h)
        rest == SubSeq(list, Len(run) + 1, Len(list))
    IN /\ {run[i] : i \in 1..Len(run)} = Collected(list, h)
       /\ run = SubSeq(list, 1, Len(run))
       /\ \A p \in Probes : (p > h \/ (p = h /\ \A i \in 1..Len(list) : list[i] # h))
                              => LastBelow(rest, p) = LastBelow(list, p)
       /\ Latest(rest) = Latest(list)

Cex(h) == PrintT(<<"X", ToJson(h)>>)
XMirrorInSync == MirrorInSync \/ ~Cex(hist)
XSearchCorrect == SearchCorrect \/ ~Cex(hist)
XCollectCorrect == CollectCorrect \/ ~Cex(hist)
XSorted == Sorted \/ ~Cex(hist)

View == <<list, arr, steps>>
=============================================================================
