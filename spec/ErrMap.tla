------------------------------- MODULE ErrMap -------------------------------
(***************************************************************************)
(* C11 -- every error the server can produce maps to the same sentinel on  *)
(* the client (internal/adapter/errors/error.go).                          *)
(*                                                                         *)
(* Server side: Error(err) picks a gRPC status code by errors.Is against   *)
(* the sentinels (first match in a fixed order, Internal otherwise) and    *)
(* attaches a detail message carrying an error code chosen the same way.   *)
(* Client side: ClientError(err) prefers the detail's code and falls back  *)
(* on the status code.  An error value is modelled by the SET of sentinels *)
(* errors.Is finds in it (wrapping with %w keeps the set, errors.Join      *)
(* unites sets, a foreign error has the empty set).                        *)
(***************************************************************************)
EXTENDS Integers, Sequences, FiniteSets, TLC, Json

Sentinels == <<"NoFreeSpace", "NotFound", "EmptyKey", "HeaderNotFound", "TxNotFound", "TxAlreadyExists", "TxSerialization">>
SentSet == {Sentinels[i] : i \in 1..Len(Sentinels)}

(* order of the cases of the switch in Error: status code *)
CodeOrder == <<"NoFreeSpace", "NotFound", "EmptyKey", "TxNotFound", "TxAlreadyExists", "TxSerialization">>
CodeOf(s) == CASE s = "NoFreeSpace" -> "ResourceExhausted" [] s = "NotFound" -> "NotFound" [] s = "EmptyKey" -> "InvalidArgument"
               [] s = "TxNotFound" -> "Aborted" [] s = "TxAlreadyExists" -> "AlreadyExists" [] s = "TxSerialization" -> "FailedPrecondition"
(* order of the cases in errorToPbError: detail code *)
DetailOrder == <<"NoFreeSpace", "NotFound", "EmptyKey", "HeaderNotFound", "TxNotFound", "TxAlreadyExists", "TxSerialization">>

First(order, e) == LET idx == {i \in 1..Len(order) : order[i] \in e}
                   IN IF idx = {} THEN "" ELSE order[CHOOSE i \in idx : \A j \in idx : i <= j]

ServerCode(e) == IF First(CodeOrder, e) = "" THEN "Internal" ELSE CodeOf(First(CodeOrder, e))
ServerDetail(e) == IF First(DetailOrder, e) = "" THEN "Unknown" ELSE First(DetailOrder, e)

(* the sentinel the client's error Is (exactly one) *)
ClientSentinel(code, detail) == detail        \* a detail is always attached and always decides

VARIABLES err, done
vars == <<err, done>>
(* error values: a single sentinel (plain or wrapped), a foreign error, a join of two sentinels *)
Errors == {{s} : s \in SentSet} \cup {{}} \cup {{a, b} : a, b \in SentSet}
Init == err \in Errors /\ done = FALSE
Next == ~done /\ done' = TRUE /\ UNCHANGED err

(* the promise: an error that is exactly one sentinel comes out as that sentinel; a foreign error as Unknown *)
RoundTrip == (Cardinality(err) = 1 => ClientSentinel(ServerCode(err), ServerDetail(err)) \in err)
             /\ (err = {} => ClientSentinel(ServerCode(err), ServerDetail(err)) = "Unknown")
(* a joined error comes out as one of its parts *)
JoinKeepsAPart == Cardinality(err) = 2 => ClientSentinel(ServerCode(err), ServerDetail(err)) \in err

Emit == PrintT(<<"B", ToJson(<<[err |-> err, code |-> ServerCode(err), detail |-> ServerDetail(err),
                                client |-> ClientSentinel(ServerCode(err), ServerDetail(err))]>>)>>)
=============================================================================
