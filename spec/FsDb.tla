------------------------------- MODULE FsDb -------------------------------
(***************************************************************************)
(* L1 -- the mechanism of fs_db at the grain of one public call per step.  *)
(*                                                                         *)
(* Transcribed from the code (anchors in comments).  State:                *)
(*   seq      process-wide sequence counter   model/sequence/sequence.go   *)
(*   reg      registry of open transactions   repository/transaction       *)
(*   regOrder registry insertion order (omap) -> GC horizon = first entry  *)
(*   txs      per transaction, per key: version list   usecase/core txStore*)
(*            txs[Main] = committed versions                               *)
(*   all      per key: every live version in write/commit order (allStore) *)
(*   crec     content records  fileContent/<cid>  (absence = tombstone)    *)
(*   frec     version records  file/<cid> -> seq, tx, key                  *)
(*   disk     content files present in the storage roots                   *)
(* The L0 promise (FsDbAbs) is carried as ghost state g; TLC checks that   *)
(* what the mechanism returns is what the promise says (refinement as      *)
(* invariants) and the harness replays hist against the real code.         *)
(***************************************************************************)
EXTENDS FsDbAbs, Json

CONSTANTS MaxTx,        \* number of transaction handles that may be created
          MaxSteps,     \* length bound of a behaviour
          Levels,       \* subset of {"RU","RC","RR","SER"}
          Ops,          \* enabled operations
          AllowedDev    \* named deviations of the code from the promise that are modelled as-is

Main == MainTx
NoVer == [seq |-> 0, tx |-> -1, cid |-> 0, key |-> ""]

VARIABLES seq, ncid, reg, regOrder, txs, all, crec, disk, frec, nextTx, ended, stale, steps, quiet,
          rdr,          \* the reader somebody holds open (GetReader returned, not yet read to the end), or NoRdr
          wrs, nextW,   \* the files somebody holds open for writing (Create returned, not yet closed): <<[id, t, k]>>; next handle id
          g, devFired, hist

mech  == <<seq, ncid, reg, regOrder, txs, all, crec, disk, frec, nextTx, ended, stale, steps, quiet, rdr, wrs, nextW>>
NoRdr == [t |-> -2, k |-> "", v |-> 0, p |-> 0]
ghost == <<g, devFired>>
vars  == <<mech, ghost, hist>>

Fn(S, Op(_)) == TLCEval([x \in S |-> Op(x)])
EmptyStore == TLCEval([k \in Keys |-> <<>>])
Last(s) == s[Len(s)]
LatestOf(s) == IF s = <<>> THEN NoVer ELSE Last(s)
(* what model/core/file.go binarySearch must compute (checked branch for branch in VersionList.tla) *)
LastBefore(s, b) ==
  LET idx == {i \in 1..Len(s) : s[i].seq < b}
  IN IF idx = {} THEN NoVer ELSE s[CHOOSE i \in idx : \A j \in idx : j <= i]
Newer(a, b) == IF a.seq > b.seq THEN a ELSE b      \* model.File.Latest
TxStore(t) == IF t \in DOMAIN txs THEN txs[t] ELSE EmptyStore

Open == DOMAIN reg

Init ==
  /\ seq = 1 /\ ncid = 0
  /\ reg = EmptyF /\ regOrder = <<>>
  /\ txs = TLCEval(Main :> EmptyStore)
  /\ all = EmptyStore
  /\ crec = {} /\ disk = {} /\ frec = EmptyF
  /\ nextTx = 1 /\ ended = {} /\ stale = {} /\ steps = 0 /\ quiet = TRUE /\ rdr = NoRdr /\ wrs = <<>> /\ nextW = 1
  /\ g = GInit /\ devFired = {}
  /\ hist = <<>>

(* ---------- reads of the mechanism: usecase/store/get.go + usecase/core/get.go ---------- *)
MechVer(t, k) ==
  IF t = Main THEN LatestOf(txs[Main][k])                       \* RC filter, own store = main store
  ELSE CASE reg[t].level = "RU" -> LatestOf(all[k])
         [] reg[t].level = "RC" -> Newer(LatestOf(TxStore(t)[k]), LatestOf(txs[Main][k]))
         [] OTHER               -> Newer(LatestOf(TxStore(t)[k]), LastBefore(txs[Main][k], reg[t].bseq))
(* content record lookup: absence (tombstone) reads as ErrNotFound *)
MechRead(t, k) == LET v == MechVer(t, k) IN IF v.seq = 0 \/ v.cid \notin crec THEN 0 ELSE v.cid
MechKeys(t) == {k \in Keys : MechRead(t, k) # 0}

Readers == Open \cup {Main}

(* ---------- history ---------- *)
ObsNext == {[t |-> t, k |-> k, v |-> MechRead(t, k)', p |-> GRead(g', t, k)] :
              t \in (DOMAIN reg') \cup {Main}, k \in Keys}
Log(op, args, res, pres) ==
  hist' = Append(hist, [op |-> op, a |-> args, res |-> res, pres |-> pres, obs |-> ObsNext,
                        nf |-> Cardinality(disk') + Len(wrs'), nfr |-> Cardinality(DOMAIN frec'),
                        ncr |-> Cardinality(crec'), q |-> quiet', dev |-> devFired'])

(* ---------- cleaner: usecase/cleaner/delete_files.go deleteFile ---------- *)
(* a version without content record returns early: its version record stays *)
DeleteFilesEff(vers, cr, dk, fr) ==
  LET cids == {v.cid : v \in vers} \cap cr
  IN <<cr \ cids, dk \ cids, Fn(DOMAIN fr \ cids, LAMBDA c : fr[c])>>

(* ---------- usecase/store/set.go + delete.go + usecase/core/store.go ---------- *)
MechStore(t, k, withContent) ==
  LET cid == ncid + 1
      s   == seq + 1
      v   == [seq |-> s, tx |-> t, cid |-> cid, key |-> k]
  IN /\ ncid' = cid /\ seq' = s
     /\ txs' = IF t \in DOMAIN txs THEN TLCEval([txs EXCEPT ![t][k] = Append(@, v)])
               ELSE TLCEval(txs @@ (t :> [EmptyStore EXCEPT ![k] = <<v>>]))
     /\ all' = TLCEval([all EXCEPT ![k] = Append(@, v)])
     /\ frec' = TLCEval(frec @@ (cid :> [seq |-> s, tx |-> t, key |-> k]))
     /\ crec' = IF withContent THEN crec \cup {cid} ELSE crec
     /\ disk' = IF withContent THEN disk \cup {cid} ELSE disk

Writers == {Main} \cup Open

Set(t, k) ==
  /\ "set" \in Ops
  /\ MechStore(t, k, TRUE)
  /\ g' = GWrite(g, t, k, ncid + 1)
  /\ quiet' = FALSE
  /\ UNCHANGED <<reg, regOrder, nextTx, ended, stale, devFired>>
  /\ Log("set", [t |-> t, k |-> k, c |-> ncid + 1], "ok", "ok")

Del(t, k) ==
  /\ "del" \in Ops
  /\ MechStore(t, k, FALSE)
  /\ g' = GWrite(g, t, k, -1)
  /\ quiet' = FALSE
  /\ UNCHANGED <<reg, regOrder, nextTx, ended, stale, devFired>>
  /\ Log("del", [t |-> t, k |-> k], "ok", "ok")

(* Set with an empty key: ErrEmptyKey before anything else (store/set.go:14) *)
EmptySet(t) ==
  /\ "emptyset" \in Ops
  /\ quiet' = quiet
  /\ UNCHANGED <<seq, ncid, reg, regOrder, txs, all, crec, disk, frec, nextTx, ended, stale, ghost>>
  /\ Log("emptyset", [t |-> t], "emptykey", "emptykey")

(* Delete with an empty key: nothing refuses it (store/delete.go has no such test); it leaves a tombstone for a key nobody  *)
(* can write, which the model does not represent: for every reader it is the identity                                       *)
EmptyDel(t) ==
  /\ "emptydel" \in Ops
  /\ quiet' = quiet
  /\ UNCHANGED <<seq, ncid, reg, regOrder, txs, all, crec, disk, frec, nextTx, ended, stale, ghost>>
  /\ Log("emptydel", [t |-> t], "ok", "ok")

(* usecase/transaction/begin.go: draw a number, register *)
Begin(l) ==
  /\ "begin" \in Ops
  /\ nextTx <= MaxTx
  /\ seq' = seq + 1
  /\ reg' = TLCEval(reg @@ (nextTx :> [level |-> l, bseq |-> seq + 1]))
  /\ regOrder' = Append(regOrder, nextTx)
  /\ nextTx' = nextTx + 1
  /\ g' = GBegin(g, nextTx, l)
  /\ quiet' = FALSE
  /\ UNCHANGED <<ncid, txs, all, crec, disk, frec, ended, stale, devFired>>
  /\ Log("begin", [t |-> nextTx, l |-> l], "ok", "ok")

KeysOf(st) == {k \in Keys : st[k] # <<>>}
AllVers(st) == UNION {{st[k][i] : i \in 1..Len(st[k])} : k \in Keys}
FilterSeq(s, P(_)) == SelectSeq(s, P)
(* the order in which UpdateTx visits the keys is Go map order; only the order among seqs of *)
(* one key is ever compared, so one representative order is enough                           *)
KeyOrder(S) == CHOOSE f \in [S -> 1..Cardinality(S)] : \A a, b \in S : a # b => f[a] # f[b]

EndTx(t) ==
  /\ reg' = Fn(Open \ {t}, LAMBDA u : reg[u])
  /\ regOrder' = FilterSeq(regOrder, LAMBDA u : u # t)
  /\ ended' = ended \cup {t}

(* usecase/transaction/commit.go + usecase/core/update_tx.go *)
WritersOf(t) == {i \in 1..Len(wrs) : wrs[i].t = t}
Commit(t) ==
  /\ "commit" \in Ops
  /\ t \in Open /\ WritersOf(t) = {}
  /\ EndTx(t)
  /\ g' = GCommit(g, t)
  /\ quiet' = FALSE
  /\ UNCHANGED <<stale, devFired>>
  /\ IF t \notin DOMAIN txs
     THEN /\ UNCHANGED <<seq, ncid, txs, all, crec, disk, frec, nextTx>>
          /\ Log("commit", [t |-> t], "ok", IF GConflict(g, t) THEN "serr" ELSE "ok")
     ELSE LET st   == txs[t]
              ks   == KeysOf(st)
              n    == Cardinality(ks)
              ord  == KeyOrder(ks)
              conflict == reg[t].level \in SnapLevels
                          /\ \E k \in ks : LatestOf(txs[Main][k]).seq > reg[t].bseq
              rest == Fn(DOMAIN txs \ {t}, LAMBDA u : txs[u])
              allNoT == Fn(Keys, LAMBDA k : FilterSeq(all[k], LAMBDA v : v.tx # t))
          IN IF conflict
             THEN LET eff == DeleteFilesEff(AllVers(st), crec, disk, frec)
                  IN /\ seq' = seq + n                   \* phase 1 draws one number per key
                     /\ txs' = rest /\ all' = allNoT
                     /\ crec' = eff[1] /\ disk' = eff[2] /\ frec' = eff[3]
                     /\ UNCHANGED <<ncid, nextTx>>
                     /\ Log("commit", [t |-> t], "serr", IF GConflict(g, t) THEN "serr" ELSE "ok")
             ELSE LET newv(k) == [seq |-> seq + n + ord[k], tx |-> Main, cid |-> Last(st[k]).cid, key |-> k]
                      olds == UNION {{st[k][i] : i \in 1..(Len(st[k]) - 1)} : k \in ks}
                      eff  == DeleteFilesEff(olds, crec, disk, frec)
                      fr2  == eff[3]
                  IN /\ seq' = seq + 2 * n               \* phase 1 and phase 2 each draw one per key
                     /\ txs' = TLCEval([rest EXCEPT ![Main] =
                                  Fn(Keys, LAMBDA k : IF k \in ks THEN Append(rest[Main][k], newv(k)) ELSE rest[Main][k])])
                     /\ all' = Fn(Keys, LAMBDA k : IF k \in ks THEN Append(allNoT[k], newv(k)) ELSE allNoT[k])
                     /\ crec' = eff[1] /\ disk' = eff[2]
                     /\ frec' = Fn(DOMAIN fr2, LAMBDA c :
                                   IF \E k \in ks : newv(k).cid = c
                                   THEN LET k == CHOOSE k \in ks : newv(k).cid = c
                                        IN [seq |-> newv(k).seq, tx |-> Main, key |-> k]
                                   ELSE fr2[c])
                     /\ UNCHANGED <<ncid, nextTx>>
                     /\ Log("commit", [t |-> t], "ok", IF GConflict(g, t) THEN "serr" ELSE "ok")

(* usecase/transaction/rollback.go + usecase/core/delete_tx.go *)
Rollback(t) ==
  /\ "rollback" \in Ops
  /\ t \in Open /\ WritersOf(t) = {}
  /\ EndTx(t)
  /\ g' = GRollback(g, t)
  /\ quiet' = FALSE
  /\ UNCHANGED <<stale, devFired>>
  /\ IF t \notin DOMAIN txs
     THEN UNCHANGED <<seq, ncid, txs, all, crec, disk, frec, nextTx>>
     ELSE LET eff == DeleteFilesEff(AllVers(txs[t]), crec, disk, frec)
          IN /\ txs' = Fn(DOMAIN txs \ {t}, LAMBDA u : txs[u])
             /\ all' = Fn(Keys, LAMBDA k : FilterSeq(all[k], LAMBDA v : v.tx # t))
             /\ crec' = eff[1] /\ disk' = eff[2] /\ frec' = eff[3]
             /\ UNCHANGED <<seq, ncid, nextTx>>
  /\ Log("rollback", [t |-> t], "ok", "ok")

(* model/core/file.go IterateBeforeSeq: version i goes iff version i+1 exists with seq <= h *)
RECURSIVE NCollect(_, _)
NCollect(s, h) == IF Len(s) >= 2 /\ s[2].seq <= h THEN 1 + NCollect(Tail(s), h) ELSE 0

(* usecase/cleaner/delete_old.go + usecase/core/delete_old.go *)
GC ==
  /\ "gc" \in Ops
  /\ LET fresh == regOrder = <<>>
         h  == IF fresh THEN seq + 1 ELSE reg[Head(regOrder)].bseq
         m  == txs[Main]
         nc == [k \in Keys |-> NCollect(m[k], h)]
         dead == UNION {{m[k][i] : i \in 1..nc[k]} : k \in Keys}
         eff == DeleteFilesEff(dead, crec, disk, frec)
     IN /\ seq' = IF fresh THEN seq + 1 ELSE seq
        /\ txs' = TLCEval([txs EXCEPT ![Main] = Fn(Keys, LAMBDA k : SubSeq(m[k], nc[k] + 1, Len(m[k])))])
        /\ all' = Fn(Keys, LAMBDA k : FilterSeq(all[k], LAMBDA v : v \notin dead))
        /\ crec' = eff[1] /\ disk' = eff[2] /\ frec' = eff[3]
  /\ quiet' = (Open = {} /\ DOMAIN txs = {Main} /\ wrs = <<>>)
  /\ UNCHANGED <<ncid, reg, regOrder, nextTx, ended, stale, ghost>>
  /\ Log("gc", [x |-> 0], "ok", "ok")

(* Close + Open in the same process: usecase/core/load.go.  The counter keeps its value *)
(* (sequence.Set only ever acts on a zero counter).                                      *)
MainRecs(k) == {c \in DOMAIN frec : frec[c].tx = Main /\ frec[c].key = k}
Winner(k) == IF MainRecs(k) = {} THEN 0
             ELSE CHOOSE c \in MainRecs(k) : \A d \in MainRecs(k) : frec[d].seq <= frec[c].seq
Reopen ==
  /\ "reopen" \in Ops
  /\ rdr = NoRdr /\ wrs = <<>>       \* a graceful stop of the server waits for open streams
  /\ LET winners == {Winner(k) : k \in Keys} \ {0}
         losers == DOMAIN frec \ winners
         loserVers == {[seq |-> frec[c].seq, tx |-> frec[c].tx, cid |-> c, key |-> frec[c].key] : c \in losers}
         eff == DeleteFilesEff(loserVers, crec, disk, frec)
         ver(k) == [seq |-> frec[Winner(k)].seq, tx |-> Main, cid |-> Winner(k), key |-> k]
         st == Fn(Keys, LAMBDA k : IF Winner(k) = 0 THEN <<>> ELSE <<ver(k)>>)
     IN /\ txs' = TLCEval(Main :> st)
        /\ all' = st
        /\ crec' = eff[1] /\ disk' = eff[2] /\ frec' = eff[3]
  /\ reg' = EmptyF /\ regOrder' = <<>>
  /\ ended' = ended \cup Open
  /\ stale' = ended \cup Open
  /\ g' = GReopen(g)
  /\ quiet' = TRUE
  /\ UNCHANGED <<seq, ncid, nextTx, devFired>>
  /\ Log("reopen", [x |-> 0], "ok", "ok")

(* ---------- operations through handles of finished transactions (C13) ---------- *)
LateHandles == ended \ stale

Ident == UNCHANGED <<seq, ncid, reg, regOrder, txs, all, crec, disk, frec, nextTx, ended, stale, quiet, ghost>>

(* As-is: writes never consult the registry (store/set.go, delete.go, core/store.go:13-17): a  *)
(* write through an ended handle is accepted and creates a per-transaction store nobody owns. *)
(* This is the named deviation "latewrite"; without it the late write is the identity.         *)
LateWrite(t, k, withContent) ==
  /\ "late" \in Ops
  /\ t \in LateHandles
  /\ IF "latewrite" \in AllowedDev
     THEN /\ MechStore(t, k, withContent)
          /\ devFired' = devFired \cup {"latewrite"}
          /\ quiet' = FALSE
          /\ UNCHANGED <<reg, regOrder, nextTx, ended, stale, g>>
          /\ Log(IF withContent THEN "lset" ELSE "ldel", [t |-> t, k |-> k, c |-> ncid + 1], "ok", "txnotfound")
     ELSE /\ Ident
          /\ Log(IF withContent THEN "lset" ELSE "ldel", [t |-> t, k |-> k, c |-> ncid + 1], "txnotfound", "txnotfound")

LateRead(t, k) ==
  /\ "late" \in Ops /\ t \in LateHandles /\ Ident
  /\ Log("lget", [t |-> t, k |-> k], "txnotfound", "txnotfound")
LateKeys(t) ==
  /\ "late" \in Ops /\ t \in LateHandles /\ Ident
  /\ Log("lkeys", [t |-> t], "txnotfound", "txnotfound")
LateCommit(t) ==
  /\ "late" \in Ops /\ t \in LateHandles /\ Ident
  /\ Log("lcommit", [t |-> t], "txnotfound", "txnotfound")
LateRollback(t) ==
  /\ "late" \in Ops /\ t \in LateHandles /\ Ident
  /\ Log("lrollback", [t |-> t], "ok", "ok")

(* ---------- a reader held open across other operations ---------- *)
(* GetReader opens the content file (inline) or a stream whose server side holds it open      *)
(* (external); unlinking the file later -- overwrite + collector, end of the transaction,     *)
(* cleanup -- does not take the content away from whoever already has it open.  The promise:   *)
(* a read that has begun returns the content it began with, complete.                          *)
ROpen(t, k) ==
  /\ "reader" \in Ops
  /\ rdr = NoRdr /\ MechRead(t, k) # 0 /\ GRead(g, t, k) # 0
  /\ rdr' = [t |-> t, k |-> k, v |-> MechRead(t, k), p |-> GRead(g, t, k)]
  /\ Ident
  /\ Log("ropen", [t |-> t, k |-> k, c |-> GRead(g, t, k)], "ok", "ok")
RFinish ==
  /\ "reader" \in Ops
  /\ rdr # NoRdr
  /\ rdr' = NoRdr
  /\ Ident
  /\ Log("rfinish", [t |-> rdr.t, k |-> rdr.k, c |-> rdr.p], "ok", "ok")

(* ---------- files held open for writing across other operations ---------- *)
(* Create returns a file; nothing of it exists for anybody until Close has returned, which is then a Set of what was  *)
(* written. Several files may be open at once, also through the gRPC client, where each is an open stream.            *)
MaxWriters == 3
WOpen(t, k) ==
  /\ "writer" \in Ops
  /\ Len(wrs) < MaxWriters
  /\ wrs' = Append(wrs, [id |-> nextW, t |-> t, k |-> k]) /\ nextW' = nextW + 1
  /\ quiet' = FALSE                  \* an upload in progress: its content file may exist already
  /\ UNCHANGED <<seq, ncid, reg, regOrder, txs, all, crec, disk, frec, nextTx, ended, stale, ghost>>
  /\ Log("wopen", [t |-> t, k |-> k, c |-> nextW], "ok", "ok")
WClose(i) ==
  /\ "writer" \in Ops
  /\ LET w == wrs[i] IN
     /\ MechStore(w.t, w.k, TRUE)
     /\ g' = GWrite(g, w.t, w.k, ncid + 1)
     /\ quiet' = FALSE
     /\ wrs' = SubSeq(wrs, 1, i - 1) \o SubSeq(wrs, i + 1, Len(wrs)) /\ nextW' = nextW
     /\ UNCHANGED <<reg, regOrder, nextTx, ended, stale, devFired>>
     /\ Log("wclose", [t |-> w.t, k |-> w.k, c |-> ncid + 1, l |-> "", h |-> w.id], "ok", "ok")

Step(A) == steps < MaxSteps /\ steps' = steps + 1 /\ A
(* the frame comes first: Log reads wrs' *)
Keep(A) == UNCHANGED <<rdr, wrs, nextW>> /\ Step(A)
KeepW(A) == UNCHANGED <<wrs, nextW>> /\ Step(A)
KeepR(A) == UNCHANGED rdr /\ Step(A)

Next ==
  \/ \E t \in Writers, k \in Keys : Keep(Set(t, k))
  \/ \E t \in Writers, k \in Keys : Keep(Del(t, k))
  \/ \E t \in Writers : Keep(EmptySet(t))
  \/ \E t \in Writers : Keep(EmptyDel(t))
  \/ \E l \in Levels : Keep(Begin(l))
  \/ \E t \in Open : Keep(Commit(t))
  \/ \E t \in Open : Keep(Rollback(t))
  \/ Keep(GC)
  \/ Keep(Reopen)
  \/ \E t \in LateHandles, k \in Keys : Keep(LateWrite(t, k, TRUE))
  \/ \E t \in LateHandles, k \in Keys : Keep(LateWrite(t, k, FALSE))
  \/ \E t \in LateHandles, k \in Keys : Keep(LateRead(t, k))
  \/ \E t \in LateHandles : Keep(LateKeys(t))
  \/ \E t \in LateHandles : Keep(LateCommit(t))
  \/ \E t \in LateHandles : Keep(LateRollback(t))
  \/ \E t \in Readers, k \in Keys : KeepW(ROpen(t, k))
  \/ KeepW(RFinish)
  \/ \E t \in Writers, k \in Keys : KeepR(WOpen(t, k))
  \/ \E i \in 1..Len(wrs) : KeepR(WClose(i))

Spec == Init /\ [][Next]_vars

Emit == PrintT(<<"B", ToJson(hist')>>)
(* for simulation: only complete behaviours are printed *)
EmitFinal == steps' = MaxSteps => PrintT(<<"B", ToJson(hist')>>)

(* ====================== properties checked on the design ====================== *)
(* C02 / C01 / C13: what the mechanism returns is what the promise says, for every reader.   *)
(* After the named deviation has fired only ReadUncommitted readers may differ (they see the *)
(* orphaned store), everybody else must still agree.                                         *)
Refines ==
  \A t \in Readers, k \in Keys :
    \/ MechRead(t, k) = GRead(g, t, k)
    \/ (devFired # {} /\ t # Main /\ reg[t].level = "RU")

(* the registry and the ghost agree on who is open, at which level *)
RegAgrees ==
  /\ Open = GOpen(g)
  /\ \A t \in Open : reg[t].level = g.tx[t].level

(* C09: a version a permitted read can return has its content record and its file *)
ReadableHasContent ==
  \A t \in Readers, k \in Keys : MechRead(t, k) # 0 => MechRead(t, k) \in disk

(* C09 as an action property: the collector changes no read of anybody *)
GCInvisible ==
  [][(hist' # hist /\ Last(hist').op = "gc") =>
       \A t \in Readers, k \in Keys : MechRead(t, k)' = MechRead(t, k)]_vars

(* C14: at quiescence the roots hold exactly one content file per readable key *)
Reclaimed ==
  quiet => disk = {MechVer(Main, k).cid : k \in MechKeys(Main)}

(* C13 as an action property: an operation through a finished handle changes nothing  *)
(* anybody can read and nothing durable                                                 *)
LateIsIdentity ==
  [][(hist' # hist /\ Last(hist').op \in {"lset", "ldel", "lget", "lkeys", "lcommit", "lrollback"}) =>
       \/ UNCHANGED <<txs, all, crec, disk, frec, reg>>
       \/ devFired' # {}]_vars

(* C03: result of Commit as the promise says (the state effect is covered by Refines) *)
CommitAsPromised ==
  [][(hist' # hist /\ Last(hist').op = "commit") => Last(hist').res = Last(hist').pres]_vars

(* sanity of the mechanism state *)
TypeOK ==
  /\ \A t \in DOMAIN txs, k \in Keys : \A i \in 1..Len(txs[t][k]) :
        /\ txs[t][k][i].tx = t /\ txs[t][k][i].key = k
        /\ i > 1 => txs[t][k][i - 1].seq < txs[t][k][i].seq
  /\ \A k \in Keys : \A i \in 1..Len(all[k]) : \E t \in DOMAIN txs : \E j \in 1..Len(txs[t][k]) : txs[t][k][j] = all[k][i]
  /\ crec \subseteq DOMAIN frec
  /\ disk = crec

(* ---- the same properties, printing the offending behaviour as JSON for the replay harness ---- *)
Cex(h) == PrintT(<<"X", ToJson(h)>>)
XRefines == Refines \/ ~Cex(hist)
XRegAgrees == RegAgrees \/ ~Cex(hist)
XReadableHasContent == ReadableHasContent \/ ~Cex(hist)
XReclaimed == Reclaimed \/ ~Cex(hist)
XTypeOK == TypeOK \/ ~Cex(hist)
XGCInvisible ==
  [][(hist' # hist /\ Last(hist').op = "gc") =>
       \/ \A t \in Readers, k \in Keys : MechRead(t, k)' = MechRead(t, k)
       \/ ~Cex(hist')]_vars
XLateIsIdentity ==
  [][(hist' # hist /\ Last(hist').op \in {"lset", "ldel", "lget", "lkeys", "lcommit", "lrollback"}) =>
       \/ UNCHANGED <<txs, all, crec, disk, frec, reg>>
       \/ devFired' # {}
       \/ ~Cex(hist')]_vars
XCommitAsPromised ==
  [][(hist' # hist /\ Last(hist').op = "commit") => (Last(hist').res = Last(hist').pres \/ ~Cex(hist'))]_vars

(* ====================== canonical (rank) view ====================== *)
(* Only the order and identity of sequence numbers, content ids and ghost times matter; the  *)
(* counters themselves and the history stay out of the fingerprint.                          *)
VersOfStore(st) == UNION {{st[k][i] : i \in 1..Len(st[k])} : k \in Keys}
LiveSeqs == UNION {{v.seq : v \in VersOfStore(txs[t])} : t \in DOMAIN txs}
            \cup {reg[t].bseq : t \in DOMAIN reg} \cup {frec[c].seq : c \in DOMAIN frec}
LiveCids == UNION {{v.cid : v \in VersOfStore(txs[t])} : t \in DOMAIN txs} \cup crec \cup disk \cup DOMAIN frec
            \cup {rdr.v, rdr.p}
LiveTimes == {g.cm[k].time : k \in Keys}
             \cup UNION {{g.tx[t].own[k].time : k \in Keys} \cup {g.tx[t].snap[k].time : k \in Keys} : t \in DOMAIN g.tx}
             \cup {g.tx[t].begin : t \in DOMAIN g.tx}
RS(x) == Cardinality({y \in LiveSeqs : y <= x})
RC(x) == Cardinality({y \in LiveCids : y <= x})
RT(x) == IF x < 0 THEN -1 ELSE Cardinality({y \in LiveTimes : y <= x})
NV(v) == [seq |-> RS(v.seq), tx |-> v.tx, cid |-> RC(v.cid), key |-> v.key]
NStore(st) == [k \in Keys |-> [i \in 1..Len(st[k]) |-> NV(st[k][i])]]
NG(x) == [val |-> IF x.val <= 0 THEN x.val ELSE RC(x.val), time |-> RT(x.time)]
RankView == <<
  [t \in DOMAIN reg |-> [level |-> reg[t].level, bseq |-> RS(reg[t].bseq)]], regOrder,
  [t \in DOMAIN txs |-> NStore(txs[t])], NStore(all),
  {RC(c) : c \in crec}, {RC(c) : c \in disk},
  {<<RC(c), RS(frec[c].seq), frec[c].tx, frec[c].key>> : c \in DOMAIN frec},
  nextTx, ended, stale, steps, quiet, devFired,
  [t |-> rdr.t, k |-> rdr.k, v |-> RC(rdr.v), p |-> RC(rdr.p)],
  [i \in 1..Len(wrs) |-> [t |-> wrs[i].t, k |-> wrs[i].k]],
  [k \in Keys |-> NG(g.cm[k])],
  [t \in DOMAIN g.tx |-> [level |-> g.tx[t].level, begin |-> RT(g.tx[t].begin),
                          own |-> [k \in Keys |-> NG(g.tx[t].own[k])],
                          snap |-> [k \in Keys |-> NG(g.tx[t].snap[k])]]] >>
=============================================================================
