-------------------------------- MODULE Wire --------------------------------
(***************************************************************************)
(* C11 -- what travels in ONE gRPC message.  Contents are streamed in      *)
(* chunks of 2 KiB and may be of any size; a key, however, travels whole   *)
(* in the header of an upload or in a unary request, and GetKeys answers   *)
(* with the whole listing in one message.  gRPC refuses to RECEIVE a       *)
(* message above a limit (4 MiB by default, on the server and on the       *)
(* client) with the status ResourceExhausted, which the client adapter     *)
(* turns into ErrNoFreeSpace.  The inline client has no such limit.        *)
(*                                                                         *)
(* Sizes are in units of 256 KiB; Limit = 16 units.  A key of 0 units is   *)
(* an ordinary short key.                                                   *)
(*                                                                         *)
(* Variant "asfound": the client receives GetKeys answers under the        *)
(* default limit; "repaired": without a limit of its own.                   *)
(***************************************************************************)
EXTENDS Integers, Sequences, FiniteSets, TLC, Json

CONSTANTS KeyUnits,   \* key lengths to choose from, e.g. {0, 1, 5, 15, 17}
          MaxKeys, Limit, Variant

VARIABLES puts,       \* sequence of [len, res]: the keys written so far and what the external client answered
          listed      \* "" | "all" | "nospace": the answer of the final GetKeys
vars == <<puts, listed>>

Init == puts = <<>> /\ listed = ""

(* a request carrying the key: the server must receive it *)
Put(n) ==
  /\ listed = "" /\ Len(puts) < MaxKeys
  /\ puts' = Append(puts, [len |-> n, res |-> IF n < Limit THEN "ok" ELSE "nospace"])
  /\ UNCHANGED listed
RECURSIVE Sum(_)
Sum(s) == IF s = <<>> THEN 0 ELSE (IF Head(s).res = "ok" THEN Head(s).len ELSE 0) + Sum(Tail(s))
(* the listing of all stored keys in one answer: the client must receive it *)
List ==
  /\ listed = "" /\ puts # <<>>
  /\ listed' = IF Variant = "repaired" \/ Sum(puts) < Limit THEN "all" ELSE "nospace"
  /\ UNCHANGED puts
Done == listed # "" /\ UNCHANGED vars
Next == (\E n \in KeyUnits : Put(n)) \/ List \/ Done
Spec == Init /\ [][Next]_vars

(* the inline client stores every key and lists them all *)
KeysTravel == \A i \in 1..Len(puts) : puts[i].res = "ok"
ListingTravels == listed # "nospace"

Scenario == [puts |-> puts, listed |-> listed]
Emit == listed' # "" /\ listed = "" => PrintT(<<"B", ToJson(<<[puts |-> puts', listed |-> listed']>>)>>)
Cex == PrintT(<<"X", ToJson(<<Scenario>>)>>)
XKeysTravel == KeysTravel \/ ~Cex
XListingTravels == ListingTravels \/ ~Cex
=============================================================================
