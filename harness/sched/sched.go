// Package sched is a controlled scheduler for the real fs_db code. The observation points
// compiled into fs_db (verifhook.At, build tag verif) become gates: a goroutine that reaches
// one parks until the scheduler releases it. One actor is released at a time; the scheduler
// then waits until every goroutine that runs fs_db code is parked at a gate, finished, or
// blocked on a synchronisation primitive inside fs_db code (decided from the goroutine wait
// states reported by runtime.Stack, never from a time-out).
package sched

import (
	"bytes"
	"fmt"
	"regexp"
	"runtime"
	"strconv"
	"strings"
	"sync"
	"sync/atomic"
	"time"

	"github.com/glebziz/fs_db/pkg/verif"
)

// State of an actor.
type State int

const (
	Running State = iota
	Parked
	Blocked
	Done
)

func (s State) String() string { return [...]string{"running", "parked", "blocked", "done"}[s] }

// Actor is a goroutine under control: started by the harness (Go) or by the code under test
// (recognised at its first gate).
type Actor struct {
	Name    string
	Gid     int64
	At      string // gate it is parked at
	State   State
	Wait    string // wait reason when blocked
	Harness bool
	release chan struct{}
	Gates   int
}

// Event is one entry of the execution log.
type Event struct {
	Seq   int64  `json:"seq"`
	Actor string `json:"a"`
	Kind  string `json:"e"` // gate | call | ret | done | blocked | spawn
	Point string `json:"p,omitempty"`
	Data  any    `json:"d,omitempty"`
}

// Sched controls the actors of one execution.
type Sched struct {
	mu      sync.Mutex
	actors  map[int64]*Actor
	byName  map[string]*Actor
	Order   []*Actor
	Log     []Event
	seq     atomic.Int64
	enabled atomic.Bool
	self    int64
	bg      map[string]int
	// Transient lists function-name fragments: a goroutine waiting in `select`/`sleep` with one of them as its
	// innermost fs_db frame will continue by itself (a timer), so it counts as busy, not as blocked.
	Transient []string
	// Ignore lists gate points that are not scheduling points in this run.
	Ignore   map[string]bool
	Panics   []string
	stackBuf []byte
	// SettleTimeout bounds the wait for quiescence (default 60s); Busy lists what was still running when it expired.
	// HarnessWaits lists function-name fragments of the harness in which a channel wait is a wait for another actor
	HarnessWaits  []string
	SettleTimeout time.Duration
	Busy          []string
}

// New installs the gate hook and returns a scheduler. Call from the goroutine that will drive it.
func New() *Sched {
	s := &Sched{actors: map[int64]*Actor{}, byName: map[string]*Actor{}, bg: map[string]int{}, Ignore: map[string]bool{}}
	s.self = CurGID()
	s.stackBuf = make([]byte, 1<<20)
	s.enabled.Store(true)
	verif.SetAt(s.gate)
	return s
}

// Disable turns every gate into a no-op and releases everything that is parked.
func (s *Sched) Disable() {
	s.enabled.Store(false)
	s.mu.Lock()
	defer s.mu.Unlock()
	for _, a := range s.Order {
		if a.State == Parked {
			a.State = Running
			a.release <- struct{}{}
		}
	}
}

// Finish turns the gates off, releases everything and waits until every goroutine of this execution has
// either finished or is blocked for good, so that nothing of it runs into the gates of the next execution.
func (s *Sched) Finish() {
	s.Disable()
	s.Settle()
}

// CurGID returns the id of the calling goroutine.
func CurGID() int64 {
	var buf [64]byte
	n := runtime.Stack(buf[:], false)
	// "goroutine 123 ["
	f := bytes.Fields(buf[:n])
	id, _ := strconv.ParseInt(string(f[1]), 10, 64)
	return id
}

func (s *Sched) logf(actor, kind, point string, data any) {
	s.Log = append(s.Log, Event{Seq: s.seq.Add(1), Actor: actor, Kind: kind, Point: point, Data: data})
}

// Record appends a call/ret event of an actor (called by the actor itself, which is the only one running).
func (s *Sched) Record(actor, kind string, data any) {
	s.mu.Lock()
	s.logf(actor, kind, "", data)
	s.mu.Unlock()
}

func (s *Sched) gate(point string) {
	if !s.enabled.Load() {
		return
	}
	gid := CurGID()
	if gid == s.self {
		return
	}
	s.mu.Lock()
	if s.Ignore[point] {
		s.mu.Unlock()
		return
	}
	a := s.actors[gid]
	if a == nil {
		// a goroutine started by the code under test: named after the gate it first shows up at
		base := "bg:" + point
		s.bg[base]++
		a = &Actor{Name: fmt.Sprintf("%s#%d", base, s.bg[base]), Gid: gid, release: make(chan struct{}, 1)}
		s.actors[gid] = a
		s.byName[a.Name] = a
		s.Order = append(s.Order, a)
		s.logf(a.Name, "spawn", point, nil)
	}
	a.At = point
	a.State = Parked
	a.Gates++
	s.logf(a.Name, "gate", point, nil)
	s.mu.Unlock()
	<-a.release
}

// Go starts a harness actor. It runs until its first gate (or to completion) only when stepped.
func (s *Sched) Go(name string, fn func()) *Actor {
	a := &Actor{Name: name, Harness: true, release: make(chan struct{}, 1), State: Parked, At: "start"}
	started := make(chan struct{})
	go func() {
		a.Gid = CurGID()
		s.mu.Lock()
		s.actors[a.Gid] = a
		s.byName[name] = a
		s.Order = append(s.Order, a)
		s.mu.Unlock()
		close(started)
		<-a.release
		defer func() {
			if r := recover(); r != nil {
				buf := make([]byte, 8192)
				n := runtime.Stack(buf, false)
				s.mu.Lock()
				s.Panics = append(s.Panics, fmt.Sprintf("%s: panic: %v\n%s", name, r, buf[:n]))
				s.mu.Unlock()
			}
			s.mu.Lock()
			a.State = Done
			s.logf(name, "done", "", nil)
			s.mu.Unlock()
		}()
		fn()
	}()
	<-started
	return a
}

// Actor returns an actor by name.
func (s *Sched) Actor(name string) *Actor {
	s.mu.Lock()
	defer s.mu.Unlock()
	return s.byName[name]
}

// Snapshot returns the actors with their states (after a Step or Settle).
func (s *Sched) Snapshot() []Actor {
	s.mu.Lock()
	defer s.mu.Unlock()
	res := make([]Actor, len(s.Order))
	for i, a := range s.Order {
		res[i] = *a
	}
	return res
}

// Step releases a parked actor and waits until the system is quiet again.
func (s *Sched) Step(a *Actor) error {
	s.mu.Lock()
	if a.State != Parked {
		st := a.State
		s.mu.Unlock()
		return fmt.Errorf("actor %s is %s, not parked", a.Name, st)
	}
	a.State = Running
	a.Wait = ""
	s.mu.Unlock()
	a.release <- struct{}{}
	return s.Settle()
}

var (
	hdrRe = regexp.MustCompile(`^goroutine (\d+) \[([^\],]+)`)
)

type gor struct {
	id      int64
	state   string
	frames  []string
	created string
}

func (s *Sched) goroutines() []gor {
	for {
		n := runtime.Stack(s.stackBuf, true)
		if n < len(s.stackBuf) {
			return parseStacks(s.stackBuf[:n])
		}
		s.stackBuf = make([]byte, 2*len(s.stackBuf))
	}
}

func parseStacks(b []byte) []gor {
	var res []gor
	for _, blk := range bytes.Split(b, []byte("\n\n")) {
		lines := strings.Split(string(blk), "\n")
		if len(lines) == 0 {
			continue
		}
		m := hdrRe.FindStringSubmatch(lines[0])
		if m == nil {
			continue
		}
		id, _ := strconv.ParseInt(m[1], 10, 64)
		g := gor{id: id, state: m[2]}
		for _, l := range lines[1:] {
			if strings.HasPrefix(l, "\t") || l == "" {
				continue
			}
			if strings.HasPrefix(l, "created by ") {
				g.created = strings.TrimPrefix(l, "created by ")
				continue
			}
			if i := strings.LastIndex(l, "("); i > 0 {
				l = l[:i]
			}
			g.frames = append(g.frames, l)
		}
		res = append(res, g)
	}
	return res
}

func isOurs(fn string) bool {
	return strings.HasPrefix(fn, "github.com/glebziz/fs_db") || strings.HasPrefix(fn, "fsdbverif/")
}

func isRuntimeish(fn string) bool {
	return strings.HasPrefix(fn, "runtime.") || strings.HasPrefix(fn, "sync.") || strings.HasPrefix(fn, "sync/atomic.") ||
		strings.HasPrefix(fn, "internal/") || strings.HasPrefix(fn, "time.") || strings.HasPrefix(fn, "context.")
}

var waitStates = map[string]bool{
	"sync.Mutex.Lock": true, "sync.RWMutex.RLock": true, "sync.RWMutex.Lock": true, "sync.Cond.Wait": true,
	"semacquire": true, "sync.WaitGroup.Wait": true, "chan receive": true, "chan send": true, "select": true,
	"select (no cases)": true, "chan receive (nil chan)": true, "chan send (nil chan)": true,
}

// classify returns "ignore", "busy" or "blocked" for a goroutine that is not parked at a gate.
func (s *Sched) classify(g gor) (string, string) {
	ours := false
	for _, f := range g.frames {
		if isOurs(f) {
			ours = true
			break
		}
	}
	if !ours && !isOurs(g.created) {
		return "ignore", ""
	}
	if !ours {
		// created by fs_db but currently running only foreign code (for example a gRPC stream): not tracked
		return "ignore", ""
	}
	if !waitStates[g.state] {
		return "busy", g.state // running, runnable, syscall, IO wait, sleep, ...
	}
	inner := ""
	for _, f := range g.frames {
		if !isRuntimeish(f) {
			inner = f
			break
		}
	}
	for _, t := range s.HarnessWaits {
		if strings.Contains(inner, t) {
			return "blocked", g.state + " in " + inner // the harness's own wait for another actor (a phase of the scenario)
		}
	}
	if !isOurs(inner) {
		return "busy", g.state + " in " + inner // waiting inside a dependency (Badger, gRPC, os): it will come back
	}
	for _, t := range s.Transient {
		if strings.Contains(inner, t) {
			return "busy", g.state + " (timer) in " + inner
		}
	}
	return "blocked", g.state + " in " + inner
}

// Settle waits until no goroutine running fs_db code is busy, and records which actors are blocked.
func (s *Sched) Settle() error {
	quiet := 0
	to := s.SettleTimeout
	if to == 0 {
		to = 60 * time.Second
	}
	deadline := time.Now().Add(to)
	var busyWhy []string
	for i := 0; ; i++ {
		gs := s.goroutines()
		busy := false
		blocked := map[int64]string{}
		s.mu.Lock()
		for _, g := range gs {
			if g.id == s.self {
				continue
			}
			a := s.actors[g.id]
			if a != nil && (a.State == Parked || a.State == Done) {
				continue
			}
			cls, why := s.classify(g)
			if a != nil && a.Harness && cls == "ignore" {
				cls, why = "busy", g.state
			}
			switch cls {
			case "busy":
				busy = true
				name := fmt.Sprint("goroutine ", g.id)
				if a != nil {
					name = a.Name
				}
				busyWhy = append(busyWhy, name+": "+why)
			case "blocked":
				blocked[g.id] = why
			}
		}
		if !busy {
			quiet++
		} else {
			quiet = 0
		}
		if quiet >= 2 {
			for _, a := range s.Order {
				if a.State == Running || a.State == Blocked {
					if why, ok := blocked[a.Gid]; ok {
						if a.State != Blocked {
							s.logf(a.Name, "blocked", why, nil)
						}
						a.State, a.Wait = Blocked, why
					} else if a.State == Running {
						// a harness actor that vanished without reporting: treated as done
						present := false
						for _, g := range gs {
							if g.id == a.Gid {
								present = true
							}
						}
						if !present {
							a.State = Done
						}
					}
				}
			}
			s.mu.Unlock()
			return nil
		}
		s.mu.Unlock()
		if time.Now().After(deadline) {
			s.Busy = busyWhy
			return fmt.Errorf("the system did not become quiet within %s", to)
		}
		busyWhy = busyWhy[:0]
		if i < 20 {
			runtime.Gosched()
			time.Sleep(20 * time.Microsecond)
		} else {
			time.Sleep(200 * time.Microsecond)
		}
	}
}

// Parked lists the actors that can be stepped, in creation order.
func (s *Sched) Parked() []*Actor {
	s.mu.Lock()
	defer s.mu.Unlock()
	var res []*Actor
	for _, a := range s.Order {
		if a.State == Parked {
			res = append(res, a)
		}
	}
	return res
}

// HarnessAlive reports whether some harness actor has not finished.
func (s *Sched) HarnessAlive() bool {
	s.mu.Lock()
	defer s.mu.Unlock()
	for _, a := range s.Order {
		if a.Harness && a.State != Done {
			return true
		}
	}
	return false
}

// BlockedActors lists the actors that are blocked, with the reason.
func (s *Sched) BlockedActors() []string {
	s.mu.Lock()
	defer s.mu.Unlock()
	var res []string
	for _, a := range s.Order {
		if a.State == Blocked {
			res = append(res, a.Name+": "+a.Wait)
		}
	}
	return res
}

// Gate is a scheduling point placed by a harness actor itself (between two calls into the code under test).
func (s *Sched) Gate(point string) { s.gate(point) }
