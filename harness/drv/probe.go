package drv
