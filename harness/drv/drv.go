// Package drv drives a real fs_db database (inline, or gRPC client against an in-process
// server) from abstract steps and projects what the real code returns back onto the
// vocabulary of the TLA+ specification (content tags, abstract keys, result classes).
package drv

import (
	"bytes"
	"context"
	"errors"
	"fmt"
	"io"
	"log"
	"log/slog"
	"os"
	"path/filepath"
	"sort"
	"strings"
	"sync/atomic"
	"time"

	"github.com/glebziz/fs_db"
	"github.com/glebziz/fs_db/config"
	"github.com/glebziz/fs_db/pkg/external"
	"github.com/glebziz/fs_db/pkg/inline"
	"github.com/glebziz/fs_db/pkg/verif"
)

// ---------- result classes ----------

// Class maps an error to the result class used in the specification.
func Class(err error) string {
	switch {
	case err == nil:
		return "ok"
	case errors.Is(err, fs_db.ErrTxSerialization):
		return "serr"
	case errors.Is(err, fs_db.ErrTxNotFound):
		return "txnotfound"
	case errors.Is(err, fs_db.ErrNotFound):
		return "notfound"
	case errors.Is(err, fs_db.ErrEmptyKey):
		return "emptykey"
	case errors.Is(err, fs_db.ErrNoFreeSpace):
		return "nospace"
	case errors.Is(err, fs_db.ErrHeaderNotFound):
		return "noheader"
	case errors.Is(err, fs_db.ErrTxAlreadyExists):
		return "txexists"
	default:
		return "err:" + err.Error()
	}
}

// ---------- pool quiescence through the observation points ----------

var (
	accepted atomic.Int64
	done     atomic.Int64
	// ExtraAt, when set, receives every observation point as well.
	ExtraAt func(point string)
)

// Quiet silences the server-side request logging.
func Quiet() {
	if os.Getenv("VERIF_LOUD") != "" {
		return // debugging: keep the server's logs
	}
	slog.SetDefault(slog.New(slog.NewTextHandler(io.Discard, nil)))
	log.SetOutput(io.Discard)
}

// InstallCounters installs the observation-point hook that counts accepted and finished pool jobs.
func InstallCounters() {
	Quiet()
	verif.SetAt(func(p string) {
		switch p {
		case "wpool.send.direct", "wpool.lazy.pushed":
			accepted.Add(1)
		case "wpool.worker.done":
			done.Add(1)
		}
		if f := ExtraAt; f != nil {
			f(p)
		}
	})
}

// ResetCounters forgets jobs dropped by a pool that was stopped.
func ResetCounters() {
	accepted.Store(0)
	done.Store(0)
}

// WaitIdle waits until every job accepted by the (single) running pool has finished.
// It returns false if that did not happen within the deadline (a stranded deferred job).
func WaitIdle(deadline time.Duration) bool {
	t0 := time.Now()
	for i := 0; ; i++ {
		if accepted.Load() == done.Load() {
			return true
		}
		if time.Since(t0) > deadline {
			return false
		}
		if i < 50 {
			time.Sleep(20 * time.Microsecond)
		} else {
			time.Sleep(500 * time.Microsecond)
		}
	}
}

// ---------- concrete keys and contents ----------

// KeyPool is the pool of concrete keys abstract keys are mapped to: ASCII, multi-byte,
// separators, keys that are prefixes of each other, a long key.
var KeyPool = []string{
	"k", "k1", "k10", "a/b", "a/b/c", "ключ", "鍵-1", "Z", "z z", "é", "é", "0", "~tilde",
	strings.Repeat("L", 300), "k\x00nul", "ünï/cödé",
}

// Mapping fixes the concrete meaning of abstract keys and content tags for one run.
type Mapping struct {
	Seed int64
	keys map[string]string
}

// NewMapping returns the mapping for a seed.
func NewMapping(seed int64) *Mapping {
	return &Mapping{Seed: seed, keys: map[string]string{}}
}

// Key returns the concrete key of an abstract key ("k1", "k2", ...).
func (m *Mapping) Key(abs string) string {
	if k, ok := m.keys[abs]; ok {
		return k
	}
	n := 0
	for _, c := range abs {
		if c >= '0' && c <= '9' {
			n = n*10 + int(c-'0')
		}
	}
	k := KeyPool[int((int64(n)*7+m.Seed)%int64(len(KeyPool))+int64(len(KeyPool)))%len(KeyPool)]
	// distinct abstract keys must stay distinct
	for _, used := range m.keys {
		if used == k {
			k = k + "#" + abs
		}
	}
	m.keys[abs] = k
	return k
}

// Sizes are the content length classes (0, 1, around the 2048-byte gRPC chunk and the
// 32 KiB copy buffer, larger).
var Sizes = []int{0, 1, 7, 2047, 2048, 2049, 4096, 5000, 32767, 32768, 32769, 65537, 100000}

// smallBias makes most contents small so that long runs stay fast while every class occurs.
func (m *Mapping) size(tag int) int {
	x := splitmix(uint64(m.Seed)*1000003 + uint64(tag))
	if x%4 != 0 {
		if x%64 == 1 {
			return 0
		}
		return []int{1, 3, 7, 11}[int(x>>8)%4]
	}
	return Sizes[int(x>>16)%len(Sizes)]
}

func splitmix(x uint64) uint64 {
	x += 0x9e3779b97f4a7c15
	x = (x ^ (x >> 30)) * 0xbf58476d1ce4e5b9
	x = (x ^ (x >> 27)) * 0x94d049bb133111eb
	return x ^ (x >> 31)
}

// Content returns the bytes of content tag: the first 8 bytes encode the tag (when they
// fit) and the rest is pseudo-random, so that distinct tags always differ, also at length 0..7
// (lengths below 8 use the low bytes of a tag-derived hash; tags are compared by full equality).
func (m *Mapping) Content(tag int) []byte {
	n := m.size(tag)
	b := make([]byte, n)
	st := splitmix(uint64(tag)*2654435761 + uint64(m.Seed))
	for i := range b {
		if i%8 == 0 {
			st = splitmix(st)
		}
		b[i] = byte(st >> (8 * (i % 8)))
	}
	if n >= 8 {
		for i := 0; i < 8; i++ {
			b[i] = byte(uint64(tag) >> (8 * i))
		}
	}
	return b
}

// TagOf finds which of the candidate tags the bytes are; -1 if none (foreign or corrupt content).
func (m *Mapping) TagOf(b []byte, candidates []int) int {
	for _, t := range candidates {
		if bytes.Equal(b, m.Content(t)) {
			return t
		}
	}
	return -1
}

// ---------- drivers ----------

// Driver is a database under test together with the out-of-band controls the harness needs.
type Driver interface {
	DB() fs_db.DB
	GC() error
	Reopen() error
	Close() error
	Roots() []string
	Mode() string
}

// NewConfig returns a configuration over fresh directories below base.
func NewConfig(base string, roots int) config.Config {
	rs := make([]string, roots)
	for i := range rs {
		rs[i] = filepath.Join(base, fmt.Sprintf("r%d", i+1))
	}
	return config.Config{
		Storage: config.Storage{DbPath: filepath.Join(base, "db"), MaxDirCount: 100, RootDirs: rs, GCPeriod: time.Hour},
		WPool:   config.WPool{NumWorkers: 2, SendDuration: time.Millisecond},
	}
}

type inlineDrv struct {
	cfg config.Config
	db  fs_db.DB
}

// OpenInline opens an inline database.
func OpenInline(cfg config.Config) (Driver, error) {
	ResetCounters()
	db, err := inline.Open(context.Background(), cfg)
	if err != nil {
		return nil, err
	}
	return &inlineDrv{cfg: cfg, db: db}, nil
}

func (d *inlineDrv) DB() fs_db.DB    { return d.db }
func (d *inlineDrv) GC() error       { return verif.GC(d.db) }
func (d *inlineDrv) Roots() []string { return d.cfg.Storage.RootDirs }
func (d *inlineDrv) Mode() string    { return "inline" }
func (d *inlineDrv) Close() error    { return d.db.Close() }
func (d *inlineDrv) Reopen() error {
	if err := d.db.Close(); err != nil {
		return err
	}
	ResetCounters()
	db, err := inline.Open(context.Background(), d.cfg)
	if err != nil {
		return err
	}
	d.db = db
	return nil
}

type externalDrv struct {
	cfg config.Config
	srv *verif.Server
	db  fs_db.DB
}

// OpenExternal starts an in-process gRPC server and connects the external client to it.
func OpenExternal(cfg config.Config) (Driver, error) {
	ResetCounters()
	srv, err := verif.StartServer(cfg)
	if err != nil {
		return nil, err
	}
	db, err := external.Open(context.Background(), srv.Addr)
	if err != nil {
		srv.Stop()
		return nil, err
	}
	return &externalDrv{cfg: cfg, srv: srv, db: db}, nil
}

func (d *externalDrv) DB() fs_db.DB    { return d.db }
func (d *externalDrv) GC() error       { return d.srv.GC() }
func (d *externalDrv) Roots() []string { return d.cfg.Storage.RootDirs }
func (d *externalDrv) Mode() string    { return "external" }
func (d *externalDrv) Close() error {
	d.db.Close()
	return d.srv.Stop()
}

// Reopen restarts the server; the client (and its transaction handles) live on, connected
// to the new server instance on a new port.
func (d *externalDrv) Reopen() error {
	if err := d.srv.Stop(); err != nil {
		return err
	}
	ResetCounters()
	srv, err := verif.StartServer(d.cfg)
	if err != nil {
		return err
	}
	db, err := external.Open(context.Background(), srv.Addr)
	if err != nil {
		srv.Stop()
		return err
	}
	d.srv, d.db = srv, db
	return nil
}

// ---------- writes and reads in their variants ----------

// dataEOFReader hands out the content in pieces and returns the last piece together with io.EOF,
// as the io.Reader contract allows (compress/flate and iotest.DataErrReader do).
type dataEOFReader struct {
	b     []byte
	piece int
}

func (r *dataEOFReader) Read(p []byte) (int, error) {
	if len(r.b) == 0 {
		return 0, io.EOF
	}
	n := r.piece
	if n > len(p) {
		n = len(p)
	}
	if n > len(r.b) {
		n = len(r.b)
	}
	copy(p, r.b[:n])
	r.b = r.b[n:]
	if len(r.b) == 0 {
		return n, io.EOF
	}
	return n, nil
}

// Write stores b under key through one of the three write paths, chosen by variant; within a path
// the variant also selects how the caller behaves where the io contracts leave it free (a reader that
// delivers the last bytes together with io.EOF, short reads, one write buffer reused for every Write).
func Write(ctx context.Context, s fs_db.Store, key string, b []byte, variant int) error {
	if variant < 0 {
		variant = -variant
	}
	sub := variant / 3
	switch variant % 3 {
	case 0:
		return s.Set(ctx, key, b)
	case 1:
		switch sub % 3 {
		case 0:
			return s.SetReader(ctx, key, bytes.NewReader(b))
		case 1:
			return s.SetReader(ctx, key, &dataEOFReader{b: b, piece: 1 << 30})
		default:
			return s.SetReader(ctx, key, &dataEOFReader{b: b, piece: 1 + (sub/3)%4099})
		}
	default:
		f, err := s.Create(ctx, key)
		if err != nil {
			return err
		}
		// split into non-empty writes whose sizes depend on the variant; every second variant copies
		// each piece into one reused buffer first and scribbles over it after Write returned
		rest := b
		step := 1 + sub%5000
		reuse := sub%2 == 1
		var buf []byte
		var wErr error
		for len(rest) > 0 && wErr == nil {
			n := step
			if n > len(rest) {
				n = len(rest)
			}
			if reuse {
				if cap(buf) < n {
					buf = make([]byte, n)
				}
				buf = buf[:n]
				copy(buf, rest[:n])
				_, wErr = f.Write(buf)
				for i := range buf {
					buf[i] ^= 0xa5
				}
			} else {
				_, wErr = f.Write(rest[:n])
			}
			rest = rest[n:]
			step = step*3 + 1
		}
		cErr := f.Close()
		if wErr != nil {
			return wErr
		}
		return cErr
	}
}

// Read reads key through Get or GetReader, chosen by variant.
func Read(ctx context.Context, s fs_db.Store, key string, variant int) ([]byte, error) {
	if variant%2 == 0 {
		return s.Get(ctx, key)
	}
	r, err := s.GetReader(ctx, key)
	if err != nil {
		return nil, err
	}
	defer r.Close()
	return io.ReadAll(r)
}

// ---------- storage roots ----------

// Tree is the content of the storage roots: root -> directory -> file names, plus anything
// that does not fit the layout root/<uuid-dir>/<file>.
type Tree struct {
	Dirs   map[string]map[string][]string
	Stray  []string
	NFiles int
}

func isUUID(s string) bool {
	if len(s) != 36 {
		return false
	}
	for i, c := range s {
		switch i {
		case 8, 13, 18, 23:
			if c != '-' {
				return false
			}
		default:
			if !(c >= '0' && c <= '9' || c >= 'a' && c <= 'f' || c >= 'A' && c <= 'F') {
				return false
			}
		}
	}
	return true
}

// Walk lists the storage roots.
func Walk(roots []string) (Tree, error) {
	t := Tree{Dirs: map[string]map[string][]string{}}
	for _, root := range roots {
		t.Dirs[root] = map[string][]string{}
		ents, err := os.ReadDir(root)
		if err != nil {
			if os.IsNotExist(err) {
				continue
			}
			return t, err
		}
		for _, e := range ents {
			if !e.IsDir() || !isUUID(e.Name()) {
				t.Stray = append(t.Stray, filepath.Join(root, e.Name()))
				continue
			}
			sub, err := os.ReadDir(filepath.Join(root, e.Name()))
			if err != nil {
				return t, err
			}
			names := []string{}
			for _, f := range sub {
				if f.IsDir() {
					t.Stray = append(t.Stray, filepath.Join(root, e.Name(), f.Name())+"/")
					continue
				}
				names = append(names, f.Name())
			}
			sort.Strings(names)
			t.Dirs[root][e.Name()] = names
			t.NFiles += len(names)
		}
	}
	return t, nil
}
