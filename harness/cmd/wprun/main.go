// Command wprun executes scenarios on the real worker pool (internal/utils/wpool through
// pkg/verif.NewPool) under the controlled scheduler: senders (one job each), stoppers, runners.
// Jobs park at a harness gate, which keeps workers busy as long as the schedule wants. Per
// execution it prints the events (gate arrivals, returns), the counters and the verdict of the
// property oracle; the events are validated against WPool.tla by TLC (WPoolTrace.tla).
package main

import (
	"bufio"
	"context"
	"encoding/json"
	"flag"
	"fmt"
	"math/rand"
	"os"
	"strings"
	"sync"
	"time"

	"github.com/glebziz/fs_db/pkg/verif"

	"fsdbverif/sched"
)

type scenario struct {
	Name         string `json:"name"`
	Workers      int    `json:"workers"`
	Jobs         int    `json:"jobs"`
	Stoppers     int    `json:"stoppers"`
	Runners      int    `json:"runners"`
	Cancellers   int    `json:"cancellers"` // callers that cancel the context Run was given
	StartRunning bool   `json:"startRunning"`
	// Phased = n > 0: senders 1..n go first, the stoppers start when those Sends have returned, the runners when the
	// Stops have returned, the remaining senders when the Runs have returned (a pool that is used, stopped, started and used again)
	Phased int `json:"phased,omitempty"`
	// Schedule, when present, is replayed: one entry per observation of a TLC behaviour (S<j>, T<t>, R<r>, F, W);
	// the actor is stepped if it is parked at a gate, otherwise it reaches its next gate by itself
	Schedule []string `json:"schedule,omitempty"`
}

type event struct {
	K  string `json:"k"`
	Id int    `json:"id"`
	P  string `json:"p"`
}

type decision struct {
	Actor     string `json:"a"`
	Choices   int    `json:"n"`
	Index     int    `json:"i"`
	CurParked bool   `json:"cp"`
}

type execution struct {
	Scenario scenario   `json:"scenario"`
	Mode     string     `json:"mode"`
	Outcome  string     `json:"outcome"` // ok | deadlock | panic | stuck | error
	Detail   string     `json:"detail,omitempty"`
	Events   []event    `json:"events"`
	Executed []int      `json:"executed"`
	Accepted []int      `json:"accepted"`
	Problems []string   `json:"problems"`
	Decs     []decision `json:"decisions"`
	Steps    int        `json:"steps"`
}

type picker func(parked []*sched.Actor, cur *sched.Actor) (int, bool)

func execute(sc scenario, mode string, pick picker) (ex execution) {
	ex = execution{Scenario: sc, Mode: mode, Outcome: "ok", Events: []event{}, Problems: []string{}, Decs: []decision{}}
	verif.SetAt(nil)
	pool := verif.NewPool(sc.Workers, time.Millisecond)
	ctx := context.Background()
	runCtx, cancelParent := context.WithCancel(ctx)
	defer cancelParent()
	if sc.StartRunning {
		pool.Run(runCtx)
	}
	var mu sync.Mutex
	executed := make([]int, sc.Jobs+1)
	running := 0
	stopReturned := false
	s := sched.New()
	s.Transient = []string{"wpool.(*Pool).Send"}
	s.HarnessWaits = []string{"main.execute"}
	s.SettleTimeout = 10 * time.Second
	// phases (closed channels let everybody through when the scenario is not phased)
	firstDone, stopsDone, runsDone := make(chan struct{}), make(chan struct{}), make(chan struct{})
	var phaseMu sync.Mutex
	nFirst, nStops, nRuns := 0, 0, 0
	count := func(n *int, want int, ch chan struct{}) {
		phaseMu.Lock()
		*n++
		if *n == want {
			close(ch)
		}
		phaseMu.Unlock()
	}
	if sc.Phased <= 0 || sc.Phased > sc.Jobs {
		sc.Phased = 0
		close(firstDone)
		close(stopsDone)
		close(runsDone)
	} else {
		if sc.Stoppers == 0 {
			close(stopsDone)
		}
		if sc.Runners == 0 {
			close(runsDone)
		}
	}
	for j := 1; j <= sc.Jobs; j++ {
		j := j
		s.Go(fmt.Sprintf("S%d", j), func() {
			if sc.Phased > 0 && j > sc.Phased {
				<-runsDone
			}
			defer func() {
				if sc.Phased > 0 && j <= sc.Phased {
					count(&nFirst, sc.Phased, firstDone)
				}
			}()
			pool.Send(ctx, fmt.Sprint("job", j), func(context.Context) error {
				mu.Lock()
				running++
				if stopReturned {
					ex.Problems = append(ex.Problems, fmt.Sprintf("job %d started after Stop had returned", j))
				}
				mu.Unlock()
				s.Gate("job")
				mu.Lock()
				executed[j]++
				running--
				mu.Unlock()
				return nil
			})
		})
	}
	for t := 1; t <= sc.Stoppers; t++ {
		s.Go(fmt.Sprintf("T%d", t), func() {
			<-firstDone
			defer func() {
				if sc.Phased > 0 {
					count(&nStops, sc.Stoppers, stopsDone)
				}
			}()
			pool.Stop()
			mu.Lock()
			if running > 0 {
				ex.Problems = append(ex.Problems, "Stop returned while a job was still executing")
			}
			stopReturned = true
			mu.Unlock()
		})
	}
	for r := 1; r <= sc.Runners; r++ {
		s.Go(fmt.Sprintf("R%d", r), func() {
			<-stopsDone
			defer func() {
				if sc.Phased > 0 {
					count(&nRuns, sc.Runners, runsDone)
				}
			}()
			pool.Run(runCtx)
			mu.Lock()
			stopReturned = false
			mu.Unlock()
		})
	}
	for x := 1; x <= sc.Cancellers; x++ {
		s.Go(fmt.Sprintf("X%d", x), func() { cancelParent() })
	}
	var cur *sched.Actor
	maxSteps := 3000
	for ex.Steps = 0; ex.Steps < maxSteps; ex.Steps++ {
		parked := s.Parked()
		if len(parked) == 0 {
			if s.HarnessAlive() {
				ex.Outcome = "deadlock"
				ex.Detail = strings.Join(s.BlockedActors(), "; ")
			}
			break
		}
		idx, ok := pick(parked, cur)
		if !ok {
			ex.Outcome, ex.Detail = "stuck", "schedule prefix does not apply"
			break
		}
		next := parked[idx]
		ex.Decs = append(ex.Decs, decision{Actor: next.Name, Choices: len(parked), Index: idx, CurParked: cur != nil && cur.State == sched.Parked})
		cur = next
		if err := s.Step(next); err != nil {
			ex.Outcome, ex.Detail = "stuck", err.Error()+": "+strings.Join(s.Busy, "; ")
			break
		}
		if len(s.Panics) > 0 {
			ex.Outcome, ex.Detail = "panic", strings.Join(s.Panics, "\n")
			break
		}
	}
	if ex.Steps >= maxSteps {
		ex.Outcome, ex.Detail = "stuck", "step limit"
	}
	nlog := len(s.Log)
	s.Finish()
	// events: harness actors by their name, background actors by the first gate they showed up at
	workers := map[string]int{}
	for _, e := range s.Log[:nlog] {
		if e.Kind != "gate" && e.Kind != "done" {
			continue
		}
		p := e.Point
		if e.Kind == "done" {
			p = "done"
			for _, pn := range s.Panics {
				if strings.HasPrefix(pn, e.Actor+":") {
					p = "panic"
				}
			}
		}
		if p == "start" {
			continue
		}
		var ev event
		switch {
		case strings.HasPrefix(e.Actor, "bg:wpool.flusher"):
			ev = event{K: "F", Id: 0, P: p}
		case strings.HasPrefix(e.Actor, "bg:wpool.worker"):
			if _, ok := workers[e.Actor]; !ok {
				workers[e.Actor] = len(workers) + 1
			}
			ev = event{K: "W", Id: workers[e.Actor], P: p}
		case strings.HasPrefix(e.Actor, "bg:"):
			ev = event{K: "?", Id: 0, P: e.Actor + "@" + p}
		default:
			var id int
			fmt.Sscanf(e.Actor[1:], "%d", &id)
			ev = event{K: e.Actor[:1], Id: id, P: p}
			if ev.K == "R" && p == "done" {
				workers = map[string]int{} // a Run that started the pool started new worker goroutines
			}
		}
		ex.Events = append(ex.Events, ev)
	}
	mu.Lock()
	ex.Executed = append([]int{}, executed[1:]...)
	mu.Unlock()
	accepted := map[int]bool{}
	for _, e := range ex.Events {
		if e.K == "S" && (e.P == "wpool.send.direct" || e.P == "wpool.lazy.pushed") {
			accepted[e.Id] = true
		}
	}
	// a job accepted after the last Run returned, with no Stop and no cancellation begun at any time after that Run,
	// was accepted by a running pool: it must have been executed once the execution has drained
	lastRun, disturbed := -1, false
	for i, e := range ex.Events {
		if e.K == "R" && e.P == "done" {
			lastRun, disturbed = i, false
		}
		if e.K == "T" || e.K == "X" {
			disturbed = true
		}
	}
	if ex.Outcome == "ok" && lastRun >= 0 && !disturbed && sc.Cancellers == 0 {
		for i, e := range ex.Events {
			if i > lastRun && e.K == "S" && (e.P == "wpool.send.direct" || e.P == "wpool.lazy.pushed") && executed[e.Id] == 0 {
				// only if the pool was really (re)started by then: some Stop returned before that Run began, or it never ran
				ex.Problems = append(ex.Problems, fmt.Sprintf("job %d was accepted after Run returned (no Stop afterwards) but never executed", e.Id))
			}
		}
	}
	for j := 1; j <= sc.Jobs; j++ {
		if accepted[j] {
			ex.Accepted = append(ex.Accepted, j)
		}
		if executed[j] > 1 {
			ex.Problems = append(ex.Problems, fmt.Sprintf("job %d executed %d times", j, executed[j]))
		}
		// the run ended with nothing left to schedule: everything that can happen without a further Send has happened
		if ex.Outcome == "ok" && sc.Stoppers == 0 && sc.StartRunning && accepted[j] && executed[j] == 0 {
			ex.Problems = append(ex.Problems, fmt.Sprintf("job %d was accepted by the running pool but never executed although nothing else can run (stranded)", j))
		}
	}
	if ex.Outcome == "ok" && sc.Stoppers == 0 {
		done := make(chan struct{})
		go func() { pool.Stop(); close(done) }()
		select {
		case <-done:
		case <-time.After(10 * time.Second):
		}
	}
	return
}

func defaultPick(parked []*sched.Actor, cur *sched.Actor) int {
	for i, a := range parked {
		if a == cur {
			return i
		}
	}
	for i, a := range parked {
		if a.Harness {
			return i
		}
	}
	return 0
}

func main() {
	var (
		in    = flag.String("in", "", "scenarios, one JSON object per line")
		mode  = flag.String("mode", "random", "random | dfs")
		runs  = flag.Int("runs", 20, "executions per scenario (dfs: maximum)")
		bound = flag.Int("preempt", 2, "dfs: preemption bound")
		seed  = flag.Int64("seed", 1, "seed")
		from  = flag.Int("from", 0, "first scenario")
		count = flag.Int("count", -1, "number of scenarios")
	)
	flag.Parse()
	f, err := os.Open(*in)
	if err != nil {
		fmt.Fprintln(os.Stderr, err)
		os.Exit(2)
	}
	defer f.Close()
	sc := bufio.NewScanner(f)
	w := bufio.NewWriter(os.Stdout)
	defer w.Flush()
	enc := json.NewEncoder(w)
	n := 0
	for line := 0; sc.Scan(); line++ {
		if line < *from {
			continue
		}
		if *count >= 0 && n >= *count {
			break
		}
		n++
		var s scenario
		if err := json.Unmarshal(sc.Bytes(), &s); err != nil {
			continue
		}
		emit := func(ex execution) bool {
			enc.Encode(ex)
			w.Flush()
			// blocked goroutines of a hung execution stay behind: continue in a fresh process
			return ex.Outcome == "ok" || ex.Outcome == "panic"
		}
		if len(s.Schedule) > 0 {
			pos := 0
			ex := execute(s, "sched", func(parked []*sched.Actor, cur *sched.Actor) (int, bool) {
				for pos < len(s.Schedule) {
					tok := s.Schedule[pos]
					pos++
					for i, a := range parked {
						if a.Name == tok || (tok == "F" && strings.HasPrefix(a.Name, "bg:wpool.flusher")) || (tok == "W" && strings.HasPrefix(a.Name, "bg:wpool.worker")) {
							return i, true
						}
					}
				}
				return defaultPick(parked, cur), true
			})
			emit(ex)
			continue
		}
		if *mode == "random" {
			for i := 0; i < *runs; i++ {
				rng := rand.New(rand.NewSource(*seed*1000003 + int64(line)*1009 + int64(i)))
				pSwitch := []float64{0.15, 0.4, 0.7, 1.0}[i%4]
				ex := execute(s, "random", func(parked []*sched.Actor, cur *sched.Actor) (int, bool) {
					if cur != nil && cur.State == sched.Parked && rng.Float64() > pSwitch {
						for j, a := range parked {
							if a == cur {
								return j, true
							}
						}
					}
					return rng.Intn(len(parked)), true
				})
				if !emit(ex) {
					os.Exit(3)
				}
			}
			continue
		}
		type item struct {
			prefix []int
			cost   int
		}
		stack := []item{{}}
		done := 0
		for len(stack) > 0 && done < *runs {
			best := 0
			for i := range stack {
				if stack[i].cost < stack[best].cost {
					best = i
				}
			}
			it := stack[best]
			stack = append(stack[:best], stack[best+1:]...)
			pos := 0
			ex := execute(s, "dfs", func(parked []*sched.Actor, cur *sched.Actor) (int, bool) {
				if pos < len(it.prefix) {
					i := it.prefix[pos]
					pos++
					if i >= len(parked) {
						return 0, false
					}
					return i, true
				}
				pos++
				return defaultPick(parked, cur), true
			})
			done++
			if !emit(ex) {
				os.Exit(3)
			}
			pre, prev := 0, ""
			taken := make([]int, 0, len(ex.Decs))
			for di, d := range ex.Decs {
				if di >= len(it.prefix) && d.Choices > 1 {
					for alt := 0; alt < d.Choices; alt++ {
						if alt == d.Index {
							continue
						}
						cost := pre
						if d.CurParked {
							cost++
						}
						if cost <= *bound {
							stack = append(stack, item{prefix: append(append([]int{}, taken...), alt), cost: cost})
						}
					}
				}
				if d.CurParked && prev != "" && d.Actor != prev {
					pre++
				}
				taken = append(taken, d.Index)
				prev = d.Actor
			}
		}
	}
}
