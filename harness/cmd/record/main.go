// Command record replays the golden vectors and byte strings emitted by TLC from Record.tla
// through the real version-record repository (repository/file over a recording provider).
package main

import (
	"bufio"
	"bytes"
	"encoding/hex"
	"encoding/json"
	"flag"
	"fmt"
	"os"

	"github.com/glebziz/fs_db/pkg/verif"
)

type dec struct {
	Seq []int `json:"seq"`
	Tx  []int `json:"tx"`
	Cid []int `json:"cid"`
	Key []int `json:"key"`
}

type entry struct {
	Mode   string `json:"mode"`
	Seq    []int  `json:"seq"`
	Tx     []int  `json:"tx"`
	Cid    []int  `json:"cid"`
	Key    []int  `json:"key"`
	Enc    []int  `json:"enc"`
	B      []int  `json:"b"`
	Accept bool   `json:"accept"`
	Dec    dec    `json:"dec"`
}

type mismatch struct {
	Step   int    `json:"step"`
	Kind   string `json:"kind"`
	Detail string `json:"detail"`
}

type result struct {
	Id       int       `json:"id"`
	Mode     string    `json:"mode"`
	Status   string    `json:"status"`
	Owner    string    `json:"owner,omitempty"`
	Mismatch *mismatch `json:"mismatch,omitempty"`
	Drift    int       `json:"drift"`
	Error    string    `json:"error,omitempty"`
}

func bs(a []int) []byte {
	b := make([]byte, len(a))
	for i, x := range a {
		b[i] = byte(x)
	}
	return b
}

// value of the digits by position: digit i has weight 256^i (no byte-order routine involved)
func seqOf(d []int) uint64 {
	var v, w uint64 = 0, 1
	for _, x := range d {
		v += uint64(x) * w
		w *= 256
	}
	return v
}

func uuidOf(a []int) string {
	h := hex.EncodeToString(bs(a))
	return h[0:8] + "-" + h[8:12] + "-" + h[12:16] + "-" + h[16:20] + "-" + h[20:32]
}

func judge(id int, e entry) (res result) {
	res = result{Id: id, Mode: "record", Status: "ok"}
	fail := func(kind, d string) result {
		res.Status, res.Owner, res.Mismatch = "violation", "C19", &mismatch{Kind: kind, Detail: d}
		return res
	}
	defer func() {
		if r := recover(); r != nil {
			res.Status, res.Owner = "violation", "C19"
			res.Mismatch = &mismatch{Kind: "panic", Detail: fmt.Sprint("panic: ", r)}
		}
	}()
	st := verif.NewRecordStore()
	if e.Mode == "rec" {
		r := verif.Record{Key: string(bs(e.Key)), TxId: uuidOf(e.Tx), ContentId: uuidOf(e.Cid), Seq: seqOf(e.Seq)}
		if err := st.Set(r); err != nil {
			return fail("encode", fmt.Sprintf("Set(%+v) failed: %v", r, err))
		}
		raw, ok := st.Raw()["file/"+r.ContentId]
		if !ok || len(st.Raw()) != 1 {
			return fail("key", fmt.Sprintf("record not stored under file/<content id>: keys %v", keysOf(st.Raw())))
		}
		if !bytes.Equal(raw, bs(e.Enc)) {
			return fail("layout", fmt.Sprintf("encoded %x, layout says %x", raw, bs(e.Enc)))
		}
		got, err := st.GetAll()
		if err != nil || len(got) != 1 || got[0] != r {
			return fail("roundtrip", fmt.Sprintf("decoded %+v (%v), encoded %+v", got, err, r))
		}
		// a record written by the release layout (built here from the layout function alone) decodes to the same values
		st2 := verif.NewRecordStore()
		st2.PutRaw("file/"+r.ContentId, bs(e.Enc))
		got, err = st2.GetAll()
		if err != nil || len(got) != 1 || got[0] != r {
			return fail("golden", fmt.Sprintf("layout bytes decode to %+v (%v), want %+v", got, err, r))
		}
		return res
	}
	st.PutRaw("file/x", bs(e.B))
	got, err := st.GetAll()
	if e.Accept {
		want := verif.Record{Key: string(bs(e.Dec.Key)), TxId: uuidOf(e.Dec.Tx), ContentId: uuidOf(e.Dec.Cid), Seq: seqOf(e.Dec.Seq)}
		if err != nil || len(got) != 1 || got[0] != want {
			return fail("decode", fmt.Sprintf("%d bytes decode to %+v (%v), layout says %+v", len(e.B), got, err, want))
		}
	} else if err == nil {
		return fail("short", fmt.Sprintf("%d bytes (shorter than the header) were accepted: %+v", len(e.B), got))
	}
	return res
}

// judgeBatch stores several golden records with distinct content ids in ONE transaction of the repository (as a
// Commit does) and reads them back with ONE GetAll: records must not influence each other.
func judgeBatch(id int, es []entry) (res result) {
	res = result{Id: id, Mode: "record-batch", Status: "ok"}
	fail := func(kind, d string) result {
		res.Status, res.Owner, res.Mismatch = "violation", "C19", &mismatch{Kind: kind, Detail: d}
		return res
	}
	defer func() {
		if r := recover(); r != nil {
			res.Status, res.Owner = "violation", "C19"
			res.Mismatch = &mismatch{Kind: "panic", Detail: fmt.Sprint("panic: ", r)}
		}
	}()
	st := verif.NewRecordStore()
	var recs []verif.Record
	want := map[string]verif.Record{}
	enc := map[string][]byte{}
	for _, e := range es {
		r := verif.Record{Key: string(bs(e.Key)), TxId: uuidOf(e.Tx), ContentId: uuidOf(e.Cid), Seq: seqOf(e.Seq)}
		if _, dup := want[r.ContentId]; dup {
			continue
		}
		want[r.ContentId] = r
		enc[r.ContentId] = bs(e.Enc)
		recs = append(recs, r)
	}
	if err := st.SetAll(recs); err != nil {
		return fail("encode", fmt.Sprintf("storing %d records in one transaction failed: %v", len(recs), err))
	}
	for cid, b := range enc {
		if !bytes.Equal(st.Raw()["file/"+cid], b) {
			return fail("layout", fmt.Sprintf("of %d records stored in one transaction, the one with content id %s is stored as %x, layout says %x", len(recs), cid, st.Raw()["file/"+cid], b))
		}
	}
	got, err := st.GetAll()
	if err != nil || len(got) != len(want) {
		return fail("roundtrip", fmt.Sprintf("GetAll over %d records returned %d (%v)", len(want), len(got), err))
	}
	for _, g := range got {
		if w, ok := want[g.ContentId]; !ok || w != g {
			return fail("roundtrip", fmt.Sprintf("GetAll over %d records: decoded %+v, encoded %+v", len(want), g, want[g.ContentId]))
		}
	}
	return res
}

func keysOf(m map[string][]byte) []string {
	var ks []string
	for k := range m {
		ks = append(ks, k)
	}
	return ks
}

func main() {
	in := flag.String("in", "", "lines emitted by Record.tla")
	from := flag.Int("from", 0, "first line")
	count := flag.Int("count", -1, "number of lines")
	flag.Int64("seed", 1, "ignored")
	flag.String("mode", "", "ignored")
	flag.Bool("fs", true, "ignored")
	flag.Parse()
	f, err := os.Open(*in)
	if err != nil {
		fmt.Fprintln(os.Stderr, err)
		os.Exit(2)
	}
	defer f.Close()
	sc := bufio.NewScanner(f)
	sc.Buffer(make([]byte, 1<<20), 1<<28)
	w := bufio.NewWriter(os.Stdout)
	defer w.Flush()
	enc := json.NewEncoder(w)
	n := 0
	var batch []entry
	flush := func(id int) {
		if len(batch) > 1 {
			enc.Encode(judgeBatch(id, batch))
		}
		batch = nil
	}
	for line := 0; sc.Scan(); line++ {
		if line < *from {
			continue
		}
		if *count >= 0 && n >= *count {
			break
		}
		n++
		var es []entry
		if err := json.Unmarshal(sc.Bytes(), &es); err != nil || len(es) != 1 {
			enc.Encode(result{Id: line, Status: "error", Error: fmt.Sprint("parse: ", err)})
			continue
		}
		enc.Encode(judge(line, es[0]))
		if es[0].Mode == "rec" {
			batch = append(batch, es[0])
			if len(batch) >= 12 {
				flush(line)
			}
		}
	}
	flush(-1)
}
