// Command wire replays the scenarios of Wire.tla: keys of the given lengths are written through the
// gRPC client and through the inline client, then both list their keys; the two must answer alike.
package main

import (
	"bufio"
	"context"
	"encoding/json"
	"flag"
	"fmt"
	"os"
	"sort"
	"strings"

	"github.com/glebziz/fs_db"

	"fsdbverif/drv"
)

type put struct {
	Len int    `json:"len"`
	Res string `json:"res"`
}

type scenario struct {
	Puts   []put  `json:"puts"`
	Listed string `json:"listed"`
}

type mismatch struct {
	Step   int    `json:"step"`
	Kind   string `json:"kind"`
	Detail string `json:"detail"`
}

type result struct {
	Id       int       `json:"id"`
	Mode     string    `json:"mode"`
	Status   string    `json:"status"`
	Owner    string    `json:"owner,omitempty"`
	Mismatch *mismatch `json:"mismatch,omitempty"`
	Known    []string  `json:"known,omitempty"`
	Drift    int       `json:"drift"`
	Error    string    `json:"error,omitempty"`
}

const unit = 256 << 10

func key(i, units int) string {
	if units == 0 {
		return fmt.Sprintf("short-%d", i)
	}
	head := fmt.Sprintf("long-%d-", i)
	return head + strings.Repeat("k", units*unit-len(head))
}

type outcome struct {
	puts []string
	keys []string
	kerr string
}

func run(d drv.Driver, sc scenario, variant int) outcome {
	ctx := context.Background()
	var o outcome
	for i, p := range sc.Puts {
		k := key(i, p.Len)
		var err error
		switch (variant + i) % 3 {
		case 0:
			err = d.DB().Set(ctx, k, []byte{byte(i)})
		case 1:
			err = d.DB().Set(ctx, k, []byte{byte(i)})
			if err == nil {
				err = d.DB().Delete(ctx, k) // the key travels in a unary request as well
			}
			if err == nil {
				err = d.DB().Set(ctx, k, []byte{byte(i)})
			}
		default:
			err = drv.Write(ctx, d.DB(), k, []byte{byte(i)}, 2)
		}
		if err == nil {
			if b, gerr := d.DB().Get(ctx, k); gerr != nil || len(b) != 1 || b[0] != byte(i) {
				err = fmt.Errorf("read back: %q %v", b, gerr)
			}
		}
		o.puts = append(o.puts, drv.Class(err))
	}
	ks, err := d.DB().GetKeys(ctx)
	o.kerr = drv.Class(err)
	for _, k := range ks {
		if len(k) > 40 {
			k = fmt.Sprintf("%s...(%d bytes)", k[:12], len(k))
		}
		o.keys = append(o.keys, k)
	}
	sort.Strings(o.keys)
	return o
}

func judge(id int, sc scenario, variant int, base string) (res result) {
	res = result{Id: id, Mode: "wire", Status: "ok"}
	outs := map[string]outcome{}
	for _, mode := range []string{"inline", "external"} {
		dir, err := os.MkdirTemp(base, "w")
		if err != nil {
			res.Status, res.Error = "error", err.Error()
			return
		}
		cfg := drv.NewConfig(dir, 1)
		var d drv.Driver
		if mode == "inline" {
			d, err = drv.OpenInline(cfg)
		} else {
			d, err = drv.OpenExternal(cfg)
		}
		if err != nil {
			os.RemoveAll(dir)
			res.Status, res.Error = "error", err.Error()
			return
		}
		outs[mode] = run(d, sc, variant)
		d.Close()
		os.RemoveAll(dir)
	}
	in, ex := outs["inline"], outs["external"]
	var lens []int
	for _, p := range sc.Puts {
		lens = append(lens, p.Len*256)
	}
	// a key the server cannot receive: the recorded finding (kind "bigkey"); everything else is judged without it
	for i := range sc.Puts {
		if in.puts[i] != ex.puts[i] {
			res.Status, res.Owner = "violation", "C11"
			res.Mismatch = &mismatch{Step: i, Kind: "bigkey", Detail: fmt.Sprintf("a key of %d KiB: the inline client answers %s, the gRPC client %s (keys of %v KiB)", lens[i], in.puts[i], ex.puts[i], lens)}
			if sc.Puts[i].Len >= 16 && ex.puts[i] == "nospace" && in.puts[i] == "ok" {
				res.Status = "known"
				res.Known = []string{"key-above-grpc-message-limit"}
				res.Mismatch = nil
			}
			return
		}
	}
	if in.kerr != ex.kerr || strings.Join(in.keys, "|") != strings.Join(ex.keys, "|") {
		res.Status, res.Owner = "violation", "C11"
		res.Mismatch = &mismatch{Step: len(sc.Puts), Kind: "listing", Detail: fmt.Sprintf("GetKeys after writing keys of %v KiB: the inline client answers %s with %d keys, the gRPC client %s with %d keys",
			lens, in.kerr, len(in.keys), ex.kerr, len(ex.keys))}
		return
	}
	if (ex.kerr == "ok") != (sc.Listed == "all") {
		res.Drift++
	}
	return
}

func main() {
	in := flag.String("in", "", "scenarios emitted by Wire.tla")
	from := flag.Int("from", 0, "first line")
	count := flag.Int("count", -1, "number of lines")
	seed := flag.Int64("seed", 1, "selects the write paths")
	base := flag.String("base", "/dev/shm", "scratch directory")
	flag.String("mode", "", "ignored")
	flag.Bool("fs", true, "ignored")
	flag.Parse()
	drv.Quiet()
	_ = fs_db.ErrNotFound
	f, err := os.Open(*in)
	if err != nil {
		fmt.Fprintln(os.Stderr, err)
		os.Exit(2)
	}
	defer f.Close()
	sc := bufio.NewScanner(f)
	sc.Buffer(make([]byte, 1<<20), 1<<26)
	w := bufio.NewWriter(os.Stdout)
	defer w.Flush()
	enc := json.NewEncoder(w)
	n := 0
	for line := 0; sc.Scan(); line++ {
		if line < *from {
			continue
		}
		if *count >= 0 && n >= *count {
			break
		}
		n++
		var scs []scenario
		if err := json.Unmarshal(sc.Bytes(), &scs); err != nil || len(scs) != 1 {
			enc.Encode(result{Id: line, Status: "error", Error: fmt.Sprint("parse: ", err)})
			continue
		}
		enc.Encode(judge(line, scs[0], int(*seed)+line, *base))
		w.Flush()
	}
}
