// Command fixture writes (-make) or checks (-check) a small database directory. The committed
// fixture was written by the pinned revision of fs_db; the current tree must load it to the same state.
package main

import (
	"bytes"
	"context"
	"encoding/json"
	"flag"
	"fmt"
	"os"
	"path/filepath"
	"sort"
	"strings"
	"time"

	"github.com/glebziz/fs_db"
	"github.com/glebziz/fs_db/config"
	"github.com/glebziz/fs_db/pkg/inline"
	"github.com/glebziz/fs_db/pkg/verif"

	"fsdbverif/drv"
)

func cfg(dir string) config.Config {
	return config.Config{
		Storage: config.Storage{DbPath: filepath.Join(dir, "db"), MaxDirCount: 100, RootDirs: []string{filepath.Join(dir, "r1")}, GCPeriod: time.Hour},
		WPool:   config.WPool{NumWorkers: 2, SendDuration: time.Millisecond},
	}
}

type expected struct {
	Keys    map[string]int `json:"keys"` // key -> content tag
	Deleted []string       `json:"deleted"`
	Seed    int64          `json:"seed"`
}

func out(status, detail string, keys int) {
	b, _ := json.Marshal(map[string]any{"status": status, "detail": detail, "keys": keys})
	fmt.Println(string(b))
}

// roundtrip: the version records of n keys (ASCII, multi-byte, long, with bytes that are not UTF-8) as the store
// persisted them must be the same records after Close and Open, and every key must read back.
func roundtrip(ctx context.Context, n int) {
	dir, err := os.MkdirTemp("/dev/shm", "rt")
	if err != nil {
		out("error", err.Error(), 0)
		return
	}
	defer os.RemoveAll(dir)
	db, err := inline.Open(ctx, cfg(dir))
	if err != nil {
		out("error", err.Error(), 0)
		return
	}
	want := map[string][]byte{}
	for i := 0; i < n; i++ {
		var k string
		switch i % 6 {
		case 0:
			k = fmt.Sprintf("key-%d", i)
		case 1:
			k = fmt.Sprintf("ключ-%d-é", i)
		case 2:
			k = fmt.Sprintf("鍵/%d/🔑", i)
		case 3:
			k = fmt.Sprintf("long-%d-%s", i, strings.Repeat("é", 700+i))
		case 4:
			k = fmt.Sprintf("raw-%d-\xff\xfe\x00", i) + string([]byte{0xff, 0xfe, 0x00, byte(i)})
		default:
			k = fmt.Sprintf("%d", i)
		}
		v := []byte(fmt.Sprintf("content of %d", i))
		if err := db.Set(ctx, k, v); err != nil {
			out("error", "set: "+err.Error(), 0)
			return
		}
		want[k] = v
	}
	f0, k0, c0, err := verif.Records(db)
	if err != nil {
		out("error", err.Error(), 0)
		return
	}
	if err := db.Close(); err != nil {
		out("error", "close: "+err.Error(), 0)
		return
	}
	db, err = inline.Open(ctx, cfg(dir))
	if err != nil {
		out("violation", fmt.Sprintf("a database of %d keys does not open again: %v", n, err), n)
		return
	}
	defer db.Close()
	f1, k1, c1, err := verif.Records(db)
	if err != nil {
		out("violation", fmt.Sprintf("the records of a database of %d keys cannot be listed after reopening: %v", n, err), n)
		return
	}
	if len(f1) != len(f0) || len(c1) != len(c0) {
		out("violation", fmt.Sprintf("%d keys: %d version records and %d content records before Close, %d and %d after Open", n, len(f0), len(c0), len(f1), len(c1)), n)
		return
	}
	for cid, v := range f0 {
		if f1[cid] != v || k1[cid] != k0[cid] || c1[cid] != c0[cid] {
			out("violation", fmt.Sprintf("%d keys: the version record of content %s was (seq %d, tx %q, key %q) and decodes after reopening as (seq %d, tx %q, key %q)",
				n, cid, v.Seq, v.Tx, k0[cid], f1[cid].Seq, f1[cid].Tx, k1[cid]), n)
			return
		}
	}
	for k, v := range want {
		b, err := db.Get(ctx, k)
		if err != nil || !bytes.Equal(b, v) {
			out("violation", fmt.Sprintf("%d keys: after reopening key %q reads %q, %v", n, k, b, err), n)
			return
		}
	}
	ks, err := db.GetKeys(ctx)
	if err != nil || len(ks) != len(want) {
		out("violation", fmt.Sprintf("%d keys: GetKeys after reopening lists %d keys, %v", n, len(ks), err), n)
		return
	}
	out("ok", "", n)
}

type bulkScenario struct {
	N     int    `json:"n"`
	Bulk  string `json:"bulk"`
	Files int    `json:"files"`
}

func bulkAll(ctx context.Context, in string, from, count int) {
	data, err := os.ReadFile(in)
	if err != nil {
		fmt.Fprintln(os.Stderr, err)
		os.Exit(2)
	}
	n := 0
	for line, l := range strings.Split(strings.TrimSpace(string(data)), "\n") {
		if line < from || (count >= 0 && n >= count) {
			continue
		}
		n++
		var scs []bulkScenario
		if err := json.Unmarshal([]byte(l), &scs); err != nil || len(scs) != 1 {
			b, _ := json.Marshal(map[string]any{"id": line, "status": "error", "error": fmt.Sprint("parse: ", err)})
			fmt.Println(string(b))
			continue
		}
		st, detail := bulk(ctx, scs[0])
		res := map[string]any{"id": line, "mode": "bulk", "status": st, "drift": 0}
		if st == "violation" {
			res["owner"] = "C14"
			res["mismatch"] = map[string]any{"step": 0, "kind": "files", "detail": detail}
		} else if st != "ok" {
			res["error"] = detail
		}
		b, _ := json.Marshal(res)
		fmt.Println(string(b))
	}
}

// bulk: a transaction that leaves sc.N contents behind (rolled back, superseded inside the transaction, or lost to a
// conflict); once the pool has drained and the collector has run, the roots hold the live contents only.
func bulk(ctx context.Context, sc bulkScenario) (string, string) {
	dir, err := os.MkdirTemp("/dev/shm", "bulk")
	if err != nil {
		return "error", err.Error()
	}
	defer os.RemoveAll(dir)
	c := cfg(dir)
	c.Storage.MaxDirCount = 1000000
	drv.InstallCounters()
	d, err := drv.OpenInline(c)
	if err != nil {
		return "error", err.Error()
	}
	defer d.Close()
	db := d.DB()
	if err := db.Set(ctx, "keep", []byte("kept")); err != nil {
		return "error", err.Error()
	}
	lvl := fs_db.IsoLevelReadCommitted
	if sc.Bulk == "conflict" {
		lvl = fs_db.IsoLevelSerializable
	}
	tx, err := db.Begin(ctx, lvl)
	if err != nil {
		return "error", err.Error()
	}
	for i := 0; i < sc.N; i++ {
		k := fmt.Sprintf("bulk-%d", i)
		if sc.Bulk == "conflict" && i == 0 {
			k = "keep"
		}
		if err := tx.Set(ctx, k, []byte{byte(i)}); err != nil {
			return "error", err.Error()
		}
		if sc.Bulk == "supersede" {
			if err := tx.Set(ctx, k, []byte{byte(i), 1}); err != nil {
				return "error", err.Error()
			}
		}
	}
	switch sc.Bulk {
	case "rollback":
		err = tx.Rollback(ctx)
	case "supersede":
		err = tx.Commit(ctx)
	case "conflict":
		if err := db.Set(ctx, "keep", []byte("kept again")); err != nil {
			return "error", err.Error()
		}
		if cErr := tx.Commit(ctx); cErr == nil && sc.N > 0 {
			return "error", "the conflicting commit succeeded"
		}
	}
	if err != nil {
		return "error", "end of transaction: " + err.Error()
	}
	if !drv.WaitIdle(60 * time.Second) {
		return "error", "the worker pool did not drain"
	}
	if err := d.GC(); err != nil {
		return "error", err.Error()
	}
	if !drv.WaitIdle(60 * time.Second) {
		return "error", "the worker pool did not drain after the collection"
	}
	tree, err := drv.Walk(d.Roots())
	if err != nil {
		return "error", err.Error()
	}
	ks, err := db.GetKeys(ctx)
	if err != nil {
		return "error", err.Error()
	}
	if tree.NFiles != len(ks) {
		return "violation", fmt.Sprintf("a transaction that left %d contents behind (%s): once the pool has drained and the collector has run the roots hold %d content files for %d readable keys",
			sc.N, sc.Bulk, tree.NFiles, len(ks))
	}
	return "ok", ""
}

func main() {
	mk := flag.String("make", "", "write a fixture into this directory")
	ck := flag.String("check", "", "check the fixture in this directory (it is opened read-write: pass a copy)")
	bulkIn := flag.String("in", "", "scenarios of Bulk.tla: large transactions whose leftovers must all be reclaimed")
	from := flag.Int("from", 0, "first line of -in")
	count := flag.Int("count", -1, "number of lines of -in")
	flag.Int64("seed", 1, "ignored")
	flag.String("mode", "", "ignored")
	flag.Bool("fs", true, "ignored")
	rt := flag.Int("roundtrip", 0, "write this many keys into a fresh database, reopen it, and compare every persisted record and every content")
	flag.Parse()
	drv.Quiet()
	ctx := context.Background()
	if *rt > 0 {
		roundtrip(ctx, *rt)
		return
	}
	if *bulkIn != "" {
		bulkAll(ctx, *bulkIn, *from, *count)
		return
	}
	if *mk != "" {
		m := drv.NewMapping(77)
		db, err := inline.Open(ctx, cfg(*mk))
		if err != nil {
			panic(err)
		}
		exp := expected{Keys: map[string]int{}, Seed: 77}
		keys := append([]string{}, drv.KeyPool...)
		tag := 0
		for round := 0; round < 3; round++ {
			for i, k := range keys {
				if (i+round)%4 == 3 {
					continue
				}
				tag++
				if err := db.Set(ctx, k, m.Content(tag)); err != nil {
					panic(err)
				}
				exp.Keys[k] = tag
			}
		}
		for i, k := range keys {
			if i%5 == 4 {
				if err := db.Delete(ctx, k); err != nil {
					panic(err)
				}
				delete(exp.Keys, k)
				exp.Deleted = append(exp.Deleted, k)
			}
		}
		tx, _ := db.Begin(ctx, fs_db.IsoLevelSerializable)
		tag++
		tx.Set(ctx, "committed-in-tx", m.Content(tag))
		if err := tx.Commit(ctx); err != nil {
			panic(err)
		}
		exp.Keys["committed-in-tx"] = tag
		tx2, _ := db.Begin(ctx)
		tx2.Set(ctx, "left-open", []byte("never committed"))
		exp.Deleted = append(exp.Deleted, "left-open")
		if err := db.Close(); err != nil {
			panic(err)
		}
		b, _ := json.MarshalIndent(exp, "", " ")
		os.WriteFile(filepath.Join(*mk, "expected.json"), b, 0o644)
		return
	}
	var exp expected
	b, err := os.ReadFile(filepath.Join(*ck, "expected.json"))
	if err != nil || json.Unmarshal(b, &exp) != nil {
		out("error", "expected.json unreadable", 0)
		return
	}
	m := drv.NewMapping(exp.Seed)
	db, err := inline.Open(ctx, cfg(*ck))
	if err != nil {
		out("violation", "open failed: "+err.Error(), 0)
		return
	}
	defer db.Close()
	var want []string
	for k, tag := range exp.Keys {
		want = append(want, k)
		got, err := db.Get(ctx, k)
		if err != nil || !bytes.Equal(got, m.Content(tag)) {
			out("violation", fmt.Sprintf("key %q: got %d bytes, %v; the pinned revision stored content#%d (%d bytes)", k, len(got), err, tag, len(m.Content(tag))), len(exp.Keys))
			return
		}
	}
	for _, k := range exp.Deleted {
		if _, err := db.Get(ctx, k); drv.Class(err) != "notfound" {
			out("violation", fmt.Sprintf("key %q must read as not found, got %v", k, err), len(exp.Keys))
			return
		}
	}
	sort.Strings(want)
	keys, err := db.GetKeys(ctx)
	if err != nil || strings.Join(keys, "\x01") != strings.Join(want, "\x01") {
		out("violation", fmt.Sprintf("GetKeys %q (%v), the pinned revision had %q", keys, err, want), len(exp.Keys))
		return
	}
	out("ok", "", len(exp.Keys))
}
