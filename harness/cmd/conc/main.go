// Command conc executes small concurrent client programs against the real inline database
// under the controlled scheduler (package sched) and records, per execution, the call/return
// history of the public operations, the sequence of gates passed by every actor, and how the
// execution ended (all actors finished, all actors blocked = deadlock, panic).
//
// Schedules: an explicit list of actor names (replay of a TLC counterexample), seeded random
// choices, or a depth-first enumeration of all schedules with a bounded number of preemptions.
package main

import (
	"bufio"
	"context"
	"encoding/json"
	"flag"
	"fmt"
	"math/rand"
	"os"
	"sort"
	"strings"
	"sync"
	"time"

	"github.com/glebziz/fs_db"
	"github.com/glebziz/fs_db/config"
	"github.com/glebziz/fs_db/pkg/inline"
	"github.com/glebziz/fs_db/pkg/verif"

	"fsdbverif/drv"
	"fsdbverif/sched"
)

type op struct {
	Op string `json:"op"`
	T  int    `json:"t"`
	K  string `json:"k"`
	C  int    `json:"c"`
	L  string `json:"l"`
	W  []int  `json:"w"` // create: sizes of the successive Write calls
}

type actorSpec struct {
	Name string `json:"name"`
	Ops  []op   `json:"ops"`
}

type program struct {
	Name     string      `json:"name"`
	Keys     []string    `json:"keys"`
	Setup    []op        `json:"setup"`
	Actors   []actorSpec `json:"actors"`
	Schedule []string    `json:"schedule"` // explicit schedule (actor names); empty: by mode
	Ignore   []string    `json:"ignore"`   // gate points that are not scheduling points
	Family   string      `json:"family"`
}

type hevent struct {
	E   string   `json:"e"`
	Id  int      `json:"id"`
	A   string   `json:"a,omitempty"`
	Op  string   `json:"op,omitempty"`
	T   int      `json:"t"`
	K   string   `json:"k"`
	C   int      `json:"c"`
	L   string   `json:"l"`
	Res string   `json:"res,omitempty"`
	Vs  []int    `json:"vs"`
	Ks  []string `json:"ks"`
}

type decision struct {
	Actor     string `json:"a"`
	From      string `json:"from"`
	Choices   int    `json:"n"`
	Index     int    `json:"i"`
	CurParked bool   `json:"cp"` // the actor of the previous step could have continued
}

type execution struct {
	Program  string     `json:"program"`
	Family   string     `json:"family"`
	Mode     string     `json:"mode"`
	Seed     int64      `json:"seed"`
	Outcome  string     `json:"outcome"` // ok | deadlock | panic | error | stuck
	Detail   string     `json:"detail,omitempty"`
	History  []hevent   `json:"history"`
	Gates    []string   `json:"gates"`
	Decs     []decision `json:"decisions"`
	Preempts int        `json:"preemptions"`
	Steps    int        `json:"steps"`
}

type runner struct {
	mu      sync.Mutex
	prog    program
	base    string
	m       *drv.Mapping
	content map[string][]int
}

func (r *runner) bytesOf(tag int) []byte {
	b := r.m.Content(tag)
	if len(b) > 4096 {
		b = b[:64]
	}
	if len(b) < 8 {
		b = append(b, make([]byte, 8-len(b))...)
	}
	for i := 0; i < 8; i++ {
		b[i] = byte(uint64(tag) >> (8 * i))
	}
	r.mu.Lock()
	r.content[string(b)] = []int{tag}
	r.mu.Unlock()
	return b
}

type picker func(parked []*sched.Actor, cur *sched.Actor) (int, bool)

// execute runs the program once; pick chooses the next actor among the parked ones.
func (r *runner) execute(mode string, seed int64, pick picker) (ex execution) {
	ex = execution{Program: r.prog.Name, Family: r.prog.Family, Mode: mode, Seed: seed, Outcome: "ok", History: []hevent{}, Gates: []string{}, Decs: []decision{}}
	ctx := context.Background()
	dir, err := os.MkdirTemp(r.base, "c")
	if err != nil {
		ex.Outcome, ex.Detail = "error", err.Error()
		return
	}
	defer os.RemoveAll(dir)
	cfg := config.Config{
		Storage: config.Storage{DbPath: dir + "/db", MaxDirCount: 100, RootDirs: []string{dir + "/r1"}, GCPeriod: time.Hour},
		WPool:   config.WPool{NumWorkers: 1, SendDuration: time.Hour},
	}
	verif.SetAt(nil)
	db, err := inline.Open(ctx, cfg)
	if err != nil {
		ex.Outcome, ex.Detail = "error", err.Error()
		return
	}
	r.content = map[string][]int{}
	txs := map[int]fs_db.Tx{}
	store := func(t int) fs_db.Store {
		if t == 0 {
			return db
		}
		r.mu.Lock()
		defer r.mu.Unlock()
		return txs[t]
	}
	nextId := 0
	var s *sched.Sched
	record := func(actor string, o op, run func() (string, []int, []string)) {
		nextId++
		id := nextId
		hop := o.Op
		if hop == "create" {
			hop = "set" // for the promise a Create+Write*+Close is a Set of the concatenation
		}
		ev := hevent{E: "call", Id: id, A: actor, Op: hop, T: o.T, K: o.K, C: o.C, L: o.L, Vs: []int{}, Ks: []string{}}
		if s != nil {
			s.Record(actor, "call", ev)
		}
		res, vs, ks := run()
		rv := hevent{E: "ret", Id: id, A: actor, Res: res, Vs: vs, Ks: ks}
		if rv.Vs == nil {
			rv.Vs = []int{}
		}
		if rv.Ks == nil {
			rv.Ks = []string{}
		}
		if s != nil {
			s.Record(actor, "ret", rv)
		} else {
			ex.History = append(ex.History, ev, rv)
		}
	}
	doOp := func(actor string, o op) {
		record(actor, o, func() (string, []int, []string) {
			switch o.Op {
			case "begin":
				lvl := fs_db.IsoLevelReadUncommitted
				switch o.L {
				case "RC":
					lvl = fs_db.IsoLevelReadCommitted
				case "RR":
					lvl = fs_db.IsoLevelRepeatableRead
				case "SER":
					lvl = fs_db.IsoLevelSerializable
				}
				tx, err := db.Begin(ctx, lvl)
				if err == nil {
					r.mu.Lock()
					txs[o.T] = tx
					r.mu.Unlock()
				}
				return drv.Class(err), nil, nil
			case "set":
				return drv.Class(store(o.T).Set(ctx, r.m.Key(o.K), r.bytesOf(o.C))), nil, nil
			case "create":
				total := 0
				for _, n := range o.W {
					total += n
				}
				b := make([]byte, total)
				for i := range b {
					b[i] = byte(i*31 + o.C)
				}
				for i := 0; i < 8 && i < len(b); i++ {
					b[i] = byte(uint64(o.C) >> (8 * i))
				}
				r.mu.Lock()
				r.content[string(b)] = []int{o.C}
				r.mu.Unlock()
				f, err := store(o.T).Create(ctx, r.m.Key(o.K))
				if err != nil {
					return drv.Class(err), nil, nil
				}
				var wErr error
				off := 0
				buf := make([]byte, 0, 70000)
				for _, n := range o.W {
					buf = append(buf[:0], b[off:off+n]...)
					off += n
					if _, wErr = f.Write(buf); wErr != nil {
						break
					}
					for i := range buf {
						buf[i] = 0xee
					}
				}
				cErr := f.Close()
				if wErr != nil {
					return drv.Class(wErr), nil, nil
				}
				return drv.Class(cErr), nil, nil
			case "del":
				return drv.Class(store(o.T).Delete(ctx, r.m.Key(o.K))), nil, nil
			case "get":
				b, err := store(o.T).Get(ctx, r.m.Key(o.K))
				if err != nil {
					return drv.Class(err), nil, nil
				}
				r.mu.Lock()
				tags, ok := r.content[string(b)]
				r.mu.Unlock()
				if ok {
					return "ok", tags, nil
				}
				return "ok", []int{-1}, nil
			case "keys":
				ks, err := store(o.T).GetKeys(ctx)
				if err != nil {
					return drv.Class(err), nil, nil
				}
				back := map[string]string{}
				for _, k := range r.prog.Keys {
					back[r.m.Key(k)] = k
				}
				var abs []string
				for _, k := range ks {
					if a, ok := back[k]; ok {
						abs = append(abs, a)
					} else {
						abs = append(abs, "?"+k)
					}
				}
				sort.Strings(abs)
				return "ok", nil, abs
			case "commit":
				return drv.Class(store(o.T).(fs_db.Tx).Commit(ctx)), nil, nil
			case "rollback":
				return drv.Class(store(o.T).(fs_db.Tx).Rollback(ctx)), nil, nil
			case "gc":
				return drv.Class(verif.GC(db)), nil, nil
			}
			return "err:unknown op", nil, nil
		})
	}
	for _, o := range r.prog.Setup {
		doOp("setup", o)
	}

	s = sched.New()
	for _, p := range r.prog.Ignore {
		s.Ignore[p] = true
	}
	for _, as := range r.prog.Actors {
		as := as
		s.Go(as.Name, func() {
			for _, o := range as.Ops {
				doOp(as.Name, o)
			}
		})
	}
	var cur *sched.Actor
	maxSteps := 4000
	for ex.Steps = 0; ex.Steps < maxSteps; ex.Steps++ {
		parked := s.Parked()
		if !s.HarnessAlive() {
			// drain the background actors (cleaner jobs parked at gates), oldest first
			if len(parked) == 0 {
				break
			}
			if err := s.Step(parked[0]); err != nil {
				ex.Outcome, ex.Detail = "error", err.Error()
				break
			}
			continue
		}
		if len(parked) == 0 {
			ex.Outcome = "deadlock"
			ex.Detail = strings.Join(s.BlockedActors(), "; ")
			break
		}
		idx, ok := pick(parked, cur)
		if !ok {
			ex.Outcome, ex.Detail = "stuck", "schedule names an actor that is not parked"
			break
		}
		next := parked[idx]
		if cur != nil && next != cur && cur.State == sched.Parked {
			ex.Preempts++
		}
		ex.Decs = append(ex.Decs, decision{Actor: next.Name, From: next.At, Choices: len(parked), Index: idx,
			CurParked: cur != nil && cur.State == sched.Parked})
		cur = next
		if err := s.Step(next); err != nil {
			ex.Outcome, ex.Detail = "error", err.Error()
			break
		}
		if len(s.Panics) > 0 {
			ex.Outcome, ex.Detail = "panic", strings.Join(s.Panics, "\n")
			break
		}
	}
	if ex.Steps >= maxSteps {
		ex.Outcome, ex.Detail = "stuck", "step limit"
	}
	s.Finish()
	for _, e := range s.Log {
		switch e.Kind {
		case "call", "ret":
			ex.History = append(ex.History, e.Data.(hevent))
		case "gate":
			ex.Gates = append(ex.Gates, e.Actor+"@"+e.Point)
		}
	}
	if ex.Outcome == "ok" {
		// final observation, sequentially: what autocommit reads afterwards
		s = nil
		verif.SetAt(nil)
		for _, k := range r.prog.Keys {
			doOp("final", op{Op: "get", K: k})
		}
		doOp("final", op{Op: "keys"})
		// Close and Open: the committed state the concurrent execution left behind must survive as it is
		before := map[string]string{}
		for _, k := range r.prog.Keys {
			b, err := db.Get(ctx, r.m.Key(k))
			before[k] = drv.Class(err) + ":" + string(b)
		}
		if cErr := db.Close(); cErr == nil {
			db2, oErr := inline.Open(ctx, cfg)
			if oErr != nil {
				ex.Outcome, ex.Detail = "reopen", "reopen failed: "+oErr.Error()
				return
			}
			db = db2
			for _, k := range r.prog.Keys {
				b, err := db.Get(ctx, r.m.Key(k))
				if got := drv.Class(err) + ":" + string(b); got != before[k] {
					ex.Outcome = "reopen"
					ex.Detail = fmt.Sprintf("after the concurrent execution key %s read %d bytes (%s); after Close and Open it reads %d bytes (%s)", k,
						len(before[k]), strings.SplitN(before[k], ":", 2)[0], len(got), strings.SplitN(got, ":", 2)[0])
				}
			}
		}
	} else {
		verif.SetAt(nil)
	}
	if ex.Outcome == "deadlock" || ex.Outcome == "stuck" {
		// the database cannot be closed with blocked goroutines holding its locks; leak it (the process is short-lived)
		return
	}
	done := make(chan struct{})
	go func() { db.Close(); close(done) }()
	select {
	case <-done:
	case <-time.After(20 * time.Second):
		ex.Detail += " (Close did not return)"
	}
	return
}

func main() {
	var (
		in      = flag.String("in", "", "programs, one JSON object per line")
		mode    = flag.String("mode", "random", "random | dfs | sched | free (uncontrolled goroutines)")
		client  = flag.String("client", "inline", "free mode: inline | external")
		runs    = flag.Int("runs", 20, "random: executions per program; dfs: maximum executions per program")
		bound   = flag.Int("preempt", 2, "dfs: preemption bound")
		seed    = flag.Int64("seed", 1, "seed")
		base    = flag.String("base", "/dev/shm", "scratch directory")
		from    = flag.Int("from", 0, "first program")
		count   = flag.Int("count", -1, "number of programs")
		harness = flag.Bool("harnessonly", false, "schedule only the client actors at decision points (background actors run when nothing else can)")
	)
	flag.Parse()
	drv.Quiet()
	f, err := os.Open(*in)
	if err != nil {
		fmt.Fprintln(os.Stderr, err)
		os.Exit(2)
	}
	defer f.Close()
	sc := bufio.NewScanner(f)
	sc.Buffer(make([]byte, 1<<20), 1<<26)
	w := bufio.NewWriter(os.Stdout)
	defer w.Flush()
	enc := json.NewEncoder(w)
	n := 0
	for line := 0; sc.Scan(); line++ {
		if line < *from {
			continue
		}
		if *count >= 0 && n >= *count {
			break
		}
		n++
		var p program
		if err := json.Unmarshal(sc.Bytes(), &p); err != nil {
			enc.Encode(execution{Outcome: "error", Detail: "parse: " + err.Error()})
			continue
		}
		r := &runner{prog: p, base: *base, m: drv.NewMapping(*seed + int64(line))}
		filter := func(parked []*sched.Actor) []*sched.Actor { return parked }
		_ = harness
		switch {
		case *mode == "free":
			for i := 0; i < *runs; i++ {
				ex := r.executeFree(*client, *seed*1000003+int64(i))
				enc.Encode(ex)
				w.Flush()
				if ex.Outcome == "deadlock" {
					break // one minute each: one is enough
				}
			}
		case len(p.Schedule) > 0 || *mode == "sched":
			pos := 0
			ex := r.execute("sched", *seed, func(parked []*sched.Actor, cur *sched.Actor) (int, bool) {
				if pos < len(p.Schedule) {
					want := p.Schedule[pos]
					pos++
					for i, a := range parked {
						if a.Name == want {
							return i, true
						}
					}
					return 0, false
				}
				return defaultPick(parked, cur), true
			})
			enc.Encode(ex)
		case *mode == "random":
			for i := 0; i < *runs; i++ {
				rng := rand.New(rand.NewSource(*seed*1000003 + int64(line)*1009 + int64(i)))
				// PCT-flavoured: mostly stay with the current actor, switch with a per-run probability
				pSwitch := []float64{0.1, 0.3, 0.6, 1.0}[i%4]
				ex := r.execute("random", *seed*1000003+int64(i), func(parked []*sched.Actor, cur *sched.Actor) (int, bool) {
					parked = filter(parked)
					if cur != nil && cur.State == sched.Parked && rng.Float64() > pSwitch {
						for j, a := range parked {
							if a == cur {
								return j, true
							}
						}
					}
					return rng.Intn(len(parked)), true
				})
				enc.Encode(ex)
				w.Flush()
			}
		case *mode == "dfs":
			dfs(r, enc, *bound, *runs, *seed)
		}
		w.Flush()
	}
}

// defaultPick continues the current actor when it is parked, else takes the first parked harness actor, else the first parked actor.
func defaultPick(parked []*sched.Actor, cur *sched.Actor) int {
	for i, a := range parked {
		if a == cur {
			return i
		}
	}
	for i, a := range parked {
		if a.Harness {
			return i
		}
	}
	return 0
}

// dfs enumerates schedules by re-execution: a schedule is a prefix of choice indices followed by the default
// policy; after each execution every decision point beyond the prefix contributes its untried alternatives, as
// long as the preemption bound allows.
func dfs(r *runner, enc *json.Encoder, bound, maxRuns int, seed int64) {
	type item struct {
		prefix []int
		cost   int
	}
	// schedules are tried in the order of their number of preemptions (all with none first), so that a cap on the
	// number of executions cuts off the most preempted ones
	stack := []item{{}}
	runs := 0
	for len(stack) > 0 && runs < maxRuns {
		best := 0
		for i := range stack {
			if stack[i].cost < stack[best].cost {
				best = i
			}
		}
		it := stack[best]
		stack = append(stack[:best], stack[best+1:]...)
		pos := 0
		ex := r.execute("dfs", seed, func(parked []*sched.Actor, cur *sched.Actor) (int, bool) {
			if pos < len(it.prefix) {
				i := it.prefix[pos]
				pos++
				if i >= len(parked) {
					return 0, false
				}
				return i, true
			}
			pos++
			return defaultPick(parked, cur), true
		})
		runs++
		enc.Encode(ex)
		// expand alternatives at decision points at or beyond the prefix
		pre := 0
		prev := ""
		taken := make([]int, 0, len(ex.Decs))
		for di, d := range ex.Decs {
			if di >= len(it.prefix) && d.Choices > 1 {
				for alt := 0; alt < d.Choices; alt++ {
					if alt == d.Index {
						continue
					}
					// beyond the prefix the default policy was followed, so d.Index is the current actor whenever it
					// could continue: any alternative is then a preemption
					cost := pre
					if d.CurParked {
						cost++
					}
					if cost <= bound {
						stack = append(stack, item{prefix: append(append([]int{}, taken...), alt), cost: cost})
					}
				}
			}
			if d.CurParked && prev != "" && d.Actor != prev {
				pre++
			}
			taken = append(taken, d.Index)
			prev = d.Actor
		}
	}
}
