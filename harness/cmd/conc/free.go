package main

import (
	"context"
	"fmt"
	"io"
	"os"
	"sort"
	"sync"
	"time"

	"github.com/glebziz/fs_db"
	"github.com/glebziz/fs_db/pkg/verif"

	"fsdbverif/drv"
)

// bigBytes is the content of a tag in the free-running mode: sizes from a few bytes to several stream chunks and
// copy buffers, every byte depending on the tag so that a mixture of two contents is never mistaken for one of them.
func bigBytes(tag int) []byte {
	n := []int{9, 100, 2048, 5000, 40000, 150000}[tag%6] + tag%7
	b := make([]byte, n)
	for i := range b {
		b[i] = byte(i*7+i/253) ^ byte(tag*37+11)
	}
	for i := 0; i < 8; i++ {
		b[i] = byte(uint64(tag) >> (8 * i))
	}
	return b
}

// executeFree runs the actors of the program as ordinary goroutines, uncontrolled, against the inline or the gRPC
// client, and records the call/return history in real-time order (calls are logged before they start, returns after
// they ended, under one mutex), for the same linearizability check as the scheduled executions.
func (r *runner) executeFree(client string, seed int64) (ex execution) {
	ex = execution{Program: r.prog.Name, Family: r.prog.Family, Mode: "free-" + client, Seed: seed, Outcome: "ok", History: []hevent{}, Gates: []string{}, Decs: []decision{}}
	bg := context.Background()
	dir, err := os.MkdirTemp(r.base, "f")
	if err != nil {
		ex.Outcome, ex.Detail = "error", err.Error()
		return
	}
	defer os.RemoveAll(dir)
	verif.SetAt(nil)
	cfg := drv.NewConfig(dir, 1+int(seed)%2)
	var d drv.Driver
	if client == "external" {
		d, err = drv.OpenExternal(cfg)
	} else {
		d, err = drv.OpenInline(cfg)
	}
	if err != nil {
		ex.Outcome, ex.Detail = "error", err.Error()
		return
	}
	db := d.DB()
	r.content = map[string][]int{}
	txs := map[int]fs_db.Tx{}
	store := func(t int) fs_db.Store {
		if t == 0 {
			return db
		}
		r.mu.Lock()
		defer r.mu.Unlock()
		return txs[t]
	}
	content := func(tag int) []byte {
		b := bigBytes(tag)
		r.mu.Lock()
		r.content[string(b)] = []int{tag}
		r.mu.Unlock()
		return b
	}
	var (
		logMu  sync.Mutex
		nextId int
	)
	doOp := func(actor string, o op, variant int) {
		if o.Op == "fill" {
			// ballast: o.C writes of keys nobody reads, inside transaction o.T (it makes the transaction's store large;
			// the history does not mention them and the programs roll such a transaction back)
			for i := 0; i < o.C; i++ {
				if err := store(o.T).Set(bg, fmt.Sprintf("ballast-%d-%d", o.T, i), []byte{byte(i)}); err != nil {
					logMu.Lock()
					ex.Outcome, ex.Detail = "error", "ballast write: "+err.Error()
					logMu.Unlock()
					return
				}
			}
			return
		}
		if o.Op == "churn" {
			// load with an oracle of its own: o.C small transactions that write a private key, read it back and roll back.
			// "A transaction reads its own last write" needs no linearisation; the history does not mention these calls.
			for i := 0; i < o.C; i++ {
				tx, err := db.Begin(bg, fs_db.IsoLevelReadCommitted)
				if err != nil {
					continue
				}
				k, v := "churn-"+actor, []byte(fmt.Sprintf("%s-%d", actor, i))
				sErr := tx.Set(bg, k, v)
				b, gErr := tx.Get(bg, k)
				tx.Rollback(bg)
				if sErr == nil && (gErr != nil || string(b) != string(v)) {
					logMu.Lock()
					if ex.Outcome == "ok" {
						ex.Outcome = "panic" // reported like a crash of the real code: no schedule explains it
						ex.Detail = fmt.Sprintf("a transaction wrote %q to its private key %q and read back %q, %v (round %d of actor %s)", v, k, b, gErr, i, actor)
					}
					logMu.Unlock()
					return
				}
			}
			return
		}
		logMu.Lock()
		nextId++
		id := nextId
		hop := o.Op
		if hop == "create" {
			hop = "set" // for the promise a Create+Write*+Close is a Set of the concatenation
		}
		ex.History = append(ex.History, hevent{E: "call", Id: id, A: actor, Op: hop, T: o.T, K: o.K, C: o.C, L: o.L, Vs: []int{}, Ks: []string{}})
		logMu.Unlock()
		ctx, cancel := context.WithCancel(bg)
		res, vs, ks := func() (string, []int, []string) {
			switch o.Op {
			case "begin":
				lvl := fs_db.IsoLevelReadUncommitted
				switch o.L {
				case "RC":
					lvl = fs_db.IsoLevelReadCommitted
				case "RR":
					lvl = fs_db.IsoLevelRepeatableRead
				case "SER":
					lvl = fs_db.IsoLevelSerializable
				}
				tx, err := db.Begin(ctx, lvl)
				if err == nil {
					r.mu.Lock()
					txs[o.T] = tx
					r.mu.Unlock()
				}
				return drv.Class(err), nil, nil
			case "set":
				return drv.Class(drv.Write(ctx, store(o.T), r.m.Key(o.K), content(o.C), variant)), nil, nil
			case "create":
				// Create, the given Write calls (each from a buffer that is scribbled over afterwards), Close
				total := 0
				for _, n := range o.W {
					total += n
				}
				b := make([]byte, total)
				for i := range b {
					b[i] = byte(i*31 + o.C)
				}
				for i := 0; i < 8 && i < len(b); i++ {
					b[i] = byte(uint64(o.C) >> (8 * i))
				}
				r.mu.Lock()
				r.content[string(b)] = []int{o.C}
				r.mu.Unlock()
				f, err := store(o.T).Create(ctx, r.m.Key(o.K))
				if err != nil {
					return drv.Class(err), nil, nil
				}
				var wErr error
				off := 0
				buf := make([]byte, 0, 70000)
				for _, n := range o.W {
					buf = append(buf[:0], b[off:off+n]...)
					off += n
					if _, wErr = f.Write(buf); wErr != nil {
						break
					}
					for i := range buf {
						buf[i] = 0xee
					}
				}
				cErr := f.Close()
				if wErr != nil {
					return drv.Class(wErr), nil, nil
				}
				return drv.Class(cErr), nil, nil
			case "del":
				return drv.Class(store(o.T).Delete(ctx, r.m.Key(o.K))), nil, nil
			case "get":
				var b []byte
				var err error
				if variant%2 == 0 {
					b, err = store(o.T).Get(ctx, r.m.Key(o.K))
				} else {
					var rc io.ReadCloser
					rc, err = store(o.T).GetReader(ctx, r.m.Key(o.K))
					if err == nil {
						b, err = io.ReadAll(rc)
						rc.Close()
					}
				}
				if err != nil {
					return drv.Class(err), nil, nil
				}
				r.mu.Lock()
				tags, ok := r.content[string(b)]
				r.mu.Unlock()
				if ok {
					return "ok", tags, nil
				}
				return "ok", []int{-1}, nil
			case "keys":
				ks, err := store(o.T).GetKeys(ctx)
				if err != nil {
					return drv.Class(err), nil, nil
				}
				back := map[string]string{}
				for _, k := range r.prog.Keys {
					back[r.m.Key(k)] = k
				}
				var abs []string
				for _, k := range ks {
					if a, ok := back[k]; ok {
						abs = append(abs, a)
					} else {
						abs = append(abs, "?"+k)
					}
				}
				sort.Strings(abs)
				return "ok", nil, abs
			case "commit":
				return drv.Class(store(o.T).(fs_db.Tx).Commit(ctx)), nil, nil
			case "rollback":
				return drv.Class(store(o.T).(fs_db.Tx).Rollback(ctx)), nil, nil
			case "gc":
				return drv.Class(d.GC()), nil, nil
			}
			return "err:unknown op", nil, nil
		}()
		cancel()
		if vs == nil {
			vs = []int{}
		}
		if ks == nil {
			ks = []string{}
		}
		logMu.Lock()
		ex.History = append(ex.History, hevent{E: "ret", Id: id, A: actor, Res: res, Vs: vs, Ks: ks})
		logMu.Unlock()
	}
	for i, o := range r.prog.Setup {
		doOp("setup", o, int(seed)+i)
	}
	var wg sync.WaitGroup
	start := make(chan struct{})
	for ai, as := range r.prog.Actors {
		as, ai := as, ai
		wg.Add(1)
		go func() {
			defer wg.Done()
			<-start
			for i, o := range as.Ops {
				doOp(as.Name, o, int(seed)+ai*5+i)
			}
		}()
	}
	close(start)
	done := make(chan struct{})
	go func() { wg.Wait(); close(done) }()
	select {
	case <-done:
	case <-time.After(60 * time.Second):
		ex.Outcome, ex.Detail = "deadlock", "the clients did not finish within 60 s"
		return // leak the database: its goroutines hold its locks
	}
	for i, k := range r.prog.Keys {
		doOp("final", op{Op: "get", K: k}, i)
	}
	doOp("final", op{Op: "keys"}, 0)
	cl := make(chan error, 1)
	go func() { cl <- d.Close() }()
	select {
	case err := <-cl:
		if err != nil {
			ex.Detail = fmt.Sprint("close: ", err)
		}
	case <-time.After(30 * time.Second):
		ex.Outcome, ex.Detail = "deadlock", "Close did not return within 30 s"
	}
	return
}
