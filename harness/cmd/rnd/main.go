// Command rnd drives the real database with a long seeded random history (many keys, many
// simultaneously open transactions of all levels, the collector, reopen, late operations)
// and records what the real code did as ndjson: one event per API call with its result class,
// the full read matrix of every open reader after the call, GetKeys per reader, and the change of
// the storage roots. TLC validates the trace against the specifications (L0Trace.tla,
// DirsTrace.tla): direction B of the conformance.
//
// All random choices derive from -seed; -skip names operations that are drawn but not executed
// (blame by ablation: the same history without the collector / late operations).
package main

import (
	"bufio"
	"context"
	"encoding/json"
	"flag"
	"fmt"
	"math/rand"
	"os"
	"path/filepath"
	"sort"
	"strings"
	"sync"
	"time"

	"github.com/glebziz/fs_db"

	"fsdbverif/drv"
)

type obs struct {
	T  int    `json:"t"`
	K  string `json:"k"`
	Vs []int  `json:"vs"` // content tags the bytes read are equal to; empty = ErrNotFound; [-1] = unknown bytes / other error
}

type keysObs struct {
	T   int      `json:"t"`
	Ks  []string `json:"ks"`
	Err string   `json:"err"`
	Srt bool     `json:"sorted"`
}

type fsEvent struct {
	NewDirs [][2]int `json:"newdirs"` // [root, dir]
	Added   []int    `json:"added"`   // dir of every new content file
	Removed []int    `json:"removed"` // dir of every removed content file
	Stray   []string `json:"stray"`
	Counts  []int    `json:"-"`
}

type event struct {
	Op   string    `json:"op"`
	T    int       `json:"t"`
	K    string    `json:"k"`
	C    int       `json:"c"`
	L    string    `json:"l"`
	Res  string    `json:"res"`
	Obs  []obs     `json:"obs"`
	Keys []keysObs `json:"keys"`
	Fs   *fsEvent  `json:"fs,omitempty"`
	Idle bool      `json:"idle"`
	Nf   int       `json:"nf"` // content files in the roots after the call (-1: not at quiescence of the pool)
	N    int       `json:"n"`
}

type treeState struct {
	dirIds map[string]int // root/dir -> id
	files  map[string]int // file path -> dir id
}

func main() {
	var (
		steps   = flag.Int("steps", 300, "number of API calls")
		nkeys   = flag.Int("keys", 6, "number of keys")
		maxTx   = flag.Int("maxtx", 4, "simultaneously open transactions")
		seed    = flag.Int64("seed", 1, "seed of every random choice")
		roots   = flag.Int("roots", 1, "storage roots")
		mode    = flag.String("mode", "inline", "inline | external")
		out     = flag.String("out", "", "trace file (ndjson)")
		base    = flag.String("base", "/dev/shm", "scratch directory")
		ops     = flag.String("ops", "set,del,begin,commit,rollback", "enabled operations (also: gc, reopen, late, emptyset)")
		skip    = flag.String("skip", "", "operations drawn but not executed")
		levels  = flag.String("levels", "RU,RC,RR,SER", "isolation levels")
		obsAll  = flag.Bool("obs", true, "record the read matrix after every call")
		obsEach = flag.Int("obsevery", 0, "with -obs=false: record the read matrix after every reopen, after the last call and after every N-th call (0: never)")
		bigSize = flag.Bool("big", false, "use the full range of content sizes (slower)")
		unique  = flag.Bool("uniquekeys", false, "every Set writes a key of its own (nothing is ever overwritten)")
		maxDir  = flag.Uint64("maxdir", 100, "configured directory limit (values below 100 are clamped to 100 by the code)")
		rootSty = flag.Int("rootstyle", 0, "0: clean root paths; 1: trailing slash, doubled slash, /./ (the same directories, spelled differently)")
		waves   = flag.Int("waves", 0, "N > 0: alternate N autocommit writes of fresh keys with N/2 deletions of the oldest keys and a collection (directories fill up, regain room, fill up again)")
		gcEvery = flag.Duration("gcperiod", time.Hour, "period of the database's own background collector (0s: it collects continuously)")
		reAfter = flag.Int("reopenafter", 0, "no reopen before this step (lets directories fill up one after the other first)")
	)
	flag.Parse()
	drv.InstallCounters()
	rng := rand.New(rand.NewSource(*seed))
	bg := context.Background()
	ctx := bg

	dir, err := os.MkdirTemp(*base, "rnd")
	if err != nil {
		fatal(err)
	}
	defer os.RemoveAll(dir)
	cfg := drv.NewConfig(dir, *roots)
	cfg.Storage.MaxDirCount = *maxDir
	cfg.Storage.GCPeriod = *gcEvery
	if *rootSty == 1 {
		for i, r := range cfg.Storage.RootDirs {
			d, b := filepath.Split(r)
			switch i % 3 {
			case 0:
				cfg.Storage.RootDirs[i] = r + "/"
			case 1:
				cfg.Storage.RootDirs[i] = d + "/" + b
			default:
				cfg.Storage.RootDirs[i] = d + "./" + b
			}
		}
	}
	var d drv.Driver
	if *mode == "external" {
		d, err = drv.OpenExternal(cfg)
	} else {
		d, err = drv.OpenInline(cfg)
	}
	if err != nil {
		fatal(err)
	}
	defer func() { d.Close() }()

	f, err := os.Create(*out)
	if err != nil {
		fatal(err)
	}
	defer f.Close()
	w := bufio.NewWriter(f)
	defer w.Flush()
	enc := json.NewEncoder(w)
	// watchdog: a call of the real code that does not come back within two minutes ends the trace with a "hang" event
	go func() {
		for {
			time.Sleep(5 * time.Second)
			hb.Lock()
			stuck := !hb.at.IsZero() && time.Since(hb.at) > 2*time.Minute
			n, op := hb.n, hb.op
			hb.Unlock()
			if stuck {
				enc.Encode(event{Op: op, N: n, Res: "hang", Obs: []obs{}, Keys: []keysObs{}})
				w.Flush()
				os.Exit(0)
			}
		}
	}()

	enabled := map[string]bool{}
	for _, o := range strings.Split(*ops, ",") {
		enabled[o] = true
	}
	skipped := map[string]bool{}
	for _, o := range strings.Split(*skip, ",") {
		if o != "" {
			skipped[o] = true
		}
	}
	lv := strings.Split(*levels, ",")
	m := drv.NewMapping(*seed)
	byContent := map[string][]int{}
	content := func(tag int) []byte {
		var b []byte
		if *bigSize {
			b = m.Content(tag)
		} else {
			b = m.Content(tag)
			if len(b) > 5000 {
				b = b[:16+tag%64]
				for i := 0; i < 8 && i < len(b); i++ {
					b[i] = byte(uint64(tag) >> (8 * i))
				}
			}
		}
		return b
	}
	keys := make([]string, *nkeys)
	for i := range keys {
		keys[i] = fmt.Sprintf("k%d", i+1)
	}
	txs := map[int]fs_db.Tx{}
	var open []int
	dead := map[int]fs_db.Tx{}
	var ended []int
	nextTx, ntag := 0, 0
	store := func(t int) fs_db.Store {
		if t == 0 {
			return d.DB()
		}
		if tx, ok := txs[t]; ok {
			return tx
		}
		return dead[t]
	}
	ts := &treeState{dirIds: map[string]int{}, files: map[string]int{}}
	rootIdx := map[string]int{}
	for i, r := range d.Roots() {
		rootIdx[r] = i + 1
	}

	type choice struct {
		op string
		w  int
	}
	var waveLive []string
	for n := 0; n < *steps; n++ {
		var cs []choice
		add := func(op string, w int) {
			if enabled[op] {
				cs = append(cs, choice{op, w})
			}
		}
		add("set", 30)
		add("del", 8)
		add("emptyset", 1)
		if len(open) < *maxTx {
			add("begin", 8)
		}
		if len(open) > 0 {
			add("commit", 6)
			add("rollback", 3)
		}
		add("gc", 4)
		if n >= *reAfter {
			add("reopen", 1)
		}
		if len(ended) > 0 {
			add("late", 4)
		}
		total := 0
		for _, c := range cs {
			total += c.w
		}
		x := rng.Intn(total)
		op := ""
		for _, c := range cs {
			if x < c.w {
				op = c.op
				break
			}
			x -= c.w
		}
		// all random draws of a step happen before the skip decision, so a skipped run makes the same choices
		who := 0
		if len(open) > 0 && rng.Intn(3) > 0 {
			who = open[rng.Intn(len(open))]
		}
		key := keys[rng.Intn(len(keys))]
		if *unique {
			key = fmt.Sprintf("k%d", 1000+n)
		}
		level := lv[rng.Intn(len(lv))]
		variant := rng.Intn(1 << 20)
		lateKind := rng.Intn(6)
		lateWho := 0
		if len(ended) > 0 {
			lateWho = ended[rng.Intn(len(ended))]
		}
		endWho := 0
		if len(open) > 0 {
			endWho = open[rng.Intn(len(open))]
		}
		if *waves > 0 {
			// fill: N fresh keys; drain: N/2 deletions of the oldest live keys, then one collection
			period := *waves + *waves/2 + 1
			ph := n % period
			who = 0
			switch {
			case ph < *waves:
				op, key = "set", fmt.Sprintf("w%d", 100000+n)
				waveLive = append(waveLive, key)
			case ph < period-1 && len(waveLive) > 0:
				op, key = "del", waveLive[0]
				waveLive = waveLive[1:]
			default:
				op = "gc"
			}
		}
		if skipped[op] {
			if op == "late" && lateKind == 0 {
				ntag++ // keep the content tags of the remaining steps aligned with the full run
			}
			continue
		}
		ev := event{Op: op, N: n, Obs: []obs{}, Keys: []keysObs{}}
		beat(n, op)
		var opErr error
		// every call gets its own context, given up as soon as the call has returned (three steps in four)
		opCtx, stop := context.WithCancel(bg)
		ctx = opCtx
		switch op {
		case "set":
			ntag++
			b := content(ntag)
			byContent[string(b)] = append(byContent[string(b)], ntag)
			ev.T, ev.K, ev.C = who, key, ntag
			opErr = drv.Write(ctx, store(who), m.Key(key), b, variant)
		case "del":
			ev.T, ev.K = who, key
			opErr = store(who).Delete(ctx, m.Key(key))
		case "emptyset":
			ev.T = who
			opErr = drv.Write(ctx, store(who), "", []byte("x"), variant)
		case "begin":
			nextTx++
			ev.T, ev.L = nextTx, level
			var tx fs_db.Tx
			switch level {
			case "RU":
				tx, opErr = d.DB().Begin(ctx, fs_db.IsoLevelReadUncommitted)
			case "RC":
				if variant%2 == 0 {
					tx, opErr = d.DB().Begin(ctx)
				} else {
					tx, opErr = d.DB().Begin(ctx, fs_db.IsoLevelReadCommitted)
				}
			case "RR":
				tx, opErr = d.DB().Begin(ctx, fs_db.IsoLevelRepeatableRead)
			default:
				tx, opErr = d.DB().Begin(ctx, fs_db.IsoLevelSerializable)
			}
			if opErr == nil {
				txs[nextTx] = tx
				open = append(open, nextTx)
			}
		case "commit", "rollback":
			ev.T = endWho
			if op == "commit" {
				opErr = txs[endWho].Commit(ctx)
			} else {
				opErr = txs[endWho].Rollback(ctx)
			}
			dead[endWho] = txs[endWho]
			delete(txs, endWho)
			open = remove(open, endWho)
			ended = append(ended, endWho)
		case "gc":
			opErr = d.GC()
		case "reopen":
			opErr = d.Reopen()
			for t, tx := range txs {
				dead[t] = tx
			}
			txs = map[int]fs_db.Tx{}
			open = nil
			if *mode != "external" {
				ended = nil // handles of a closed inline database object are not used again
			} else {
				for t := range dead {
					if !contains(ended, t) {
						ended = append(ended, t)
					}
				}
				sort.Ints(ended)
			}
		case "late":
			ev.T, ev.K = lateWho, key
			h := dead[lateWho]
			switch lateKind {
			case 0:
				ev.Op = "lset"
				ntag++
				b := content(ntag)
				byContent[string(b)] = append(byContent[string(b)], ntag)
				ev.C = ntag
				opErr = drv.Write(ctx, h, m.Key(key), b, variant)
			case 1:
				ev.Op = "ldel"
				opErr = h.Delete(ctx, m.Key(key))
			case 2:
				ev.Op = "lget"
				_, opErr = drv.Read(ctx, h, m.Key(key), variant)
			case 3:
				ev.Op = "lkeys"
				_, opErr = h.GetKeys(ctx)
			case 4:
				ev.Op = "lcommit"
				opErr = h.Commit(ctx)
			default:
				ev.Op = "lrollback"
				opErr = h.Rollback(ctx)
			}
		}
		if n%4 != 0 {
			stop()
		}
		defer stop()
		ctx = bg
		ev.Res = drv.Class(opErr)
		ev.Idle = drv.WaitIdle(5 * time.Second)

		if *obsAll || (*obsEach > 0 && (op == "reopen" || n == *steps-1 || n%*obsEach == *obsEach-1)) {
			readers := append([]int{0}, open...)
			for _, t := range readers {
				for _, k := range keys {
					b, err := drv.Read(ctx, store(t), m.Key(k), variant+t)
					o := obs{T: t, K: k, Vs: []int{}}
					switch cls := drv.Class(err); cls {
					case "ok":
						if tags, ok := byContent[string(b)]; ok {
							o.Vs = tags
						} else {
							o.Vs = []int{-1}
						}
					case "notfound":
					default:
						o.Vs = []int{-1}
					}
					ev.Obs = append(ev.Obs, o)
				}
				ks, err := store(t).GetKeys(ctx)
				ko := keysObs{T: t, Ks: []string{}, Srt: sort.StringsAreSorted(ks)}
				if err != nil {
					ko.Err = drv.Class(err)
				}
				back := map[string]string{}
				for _, k := range keys {
					back[m.Key(k)] = k
				}
				for _, ck := range ks {
					if a, ok := back[ck]; ok {
						ko.Ks = append(ko.Ks, a)
					} else {
						ko.Ks = append(ko.Ks, "?"+ck)
					}
				}
				sort.Strings(ko.Ks)
				ev.Keys = append(ev.Keys, ko)
			}
		}
		ev.Nf = -1
		if ev.Idle && *gcEvery >= time.Minute {
			// with the database's own collector running all the time the pool is never quiescent for good: between its
			// taking versions off the lists and handing their files to the pool nothing shows that work is pending
			ev.Fs = ts.diff(d.Roots(), rootIdx)
			ev.Nf = len(ts.files)
		}
		enc.Encode(ev)
	}
}

func (ts *treeState) diff(roots []string, rootIdx map[string]int) *fsEvent {
	tree, err := drv.Walk(roots)
	if err != nil {
		fatal(err)
	}
	fe := &fsEvent{NewDirs: [][2]int{}, Added: []int{}, Removed: []int{}, Stray: tree.Stray}
	if fe.Stray == nil {
		fe.Stray = []string{}
	}
	now := map[string]int{}
	var rs []string
	for r := range tree.Dirs {
		rs = append(rs, r)
	}
	sort.Strings(rs)
	for _, r := range rs {
		var ds []string
		for dn := range tree.Dirs[r] {
			ds = append(ds, dn)
		}
		sort.Strings(ds)
		// new directories are numbered in creation order as far as it is observable: unknown ones by name
		for _, dn := range ds {
			p := r + "/" + dn
			if _, ok := ts.dirIds[p]; !ok {
				ts.dirIds[p] = len(ts.dirIds) + 1
				fe.NewDirs = append(fe.NewDirs, [2]int{rootIdx[r], ts.dirIds[p]})
			}
			for _, fn := range tree.Dirs[r][dn] {
				now[p+"/"+fn] = ts.dirIds[p]
			}
		}
	}
	for p, id := range now {
		if _, ok := ts.files[p]; !ok {
			fe.Added = append(fe.Added, id)
		}
	}
	for p, id := range ts.files {
		if _, ok := now[p]; !ok {
			fe.Removed = append(fe.Removed, id)
		}
	}
	sort.Ints(fe.Added)
	sort.Ints(fe.Removed)
	ts.files = now
	return fe
}

func remove(s []int, x int) []int {
	var r []int
	for _, y := range s {
		if y != x {
			r = append(r, y)
		}
	}
	return r
}

func contains(s []int, x int) bool {
	for _, y := range s {
		if y == x {
			return true
		}
	}
	return false
}

var hb struct {
	sync.Mutex
	at time.Time
	n  int
	op string
}

func beat(n int, op string) {
	hb.Lock()
	hb.at, hb.n, hb.op = time.Now(), n, op
	hb.Unlock()
}

func fatal(err error) {
	fmt.Fprintln(os.Stderr, "rnd:", err)
	os.Exit(2)
}
