// Command rwpipe replays schedules emitted by TLC from AsyncRW.tla on the real pipe behind
// Create (internal/utils/async through pkg/verif.NewReadWriter): a writer actor (Write*, Close)
// and a reader actor (Read until EOF, Done) stepped from gate to gate by the controlled scheduler.
package main

import (
	"bufio"
	"bytes"
	"encoding/json"
	"flag"
	"fmt"
	"io"
	"os"

	"github.com/glebziz/fs_db/pkg/verif"

	"fsdbverif/sched"
)

type outcome struct {
	Writes        []int    `json:"writes"`
	Cap           int      `json:"cap"`
	Sched         []string `json:"sched"`
	Taken         int      `json:"taken"`
	Intact        bool     `json:"intact"`
	Written       int      `json:"written"`
	CloseReturned bool     `json:"closeReturned"`
	Stuck         bool     `json:"stuck"`
}

type mismatch struct {
	Step   int    `json:"step"`
	Kind   string `json:"kind"`
	Detail string `json:"detail"`
}

type result struct {
	Id       int       `json:"id"`
	Mode     string    `json:"mode"`
	Status   string    `json:"status"`
	Owner    string    `json:"owner,omitempty"`
	Mismatch *mismatch `json:"mismatch,omitempty"`
	Drift    int       `json:"drift"`
	Error    string    `json:"error,omitempty"`
}

func judge(id int, o outcome) (res result) {
	res = result{Id: id, Mode: "rwpipe", Status: "ok"}
	rw := verif.NewReadWriter()
	rw.Add(1)
	var (
		all      []byte
		taken    []byte
		closeErr error
		closed   bool
	)
	s := sched.New()
	s.Ignore["rw.close.enter"] = true
	s.Go("W", func() {
		next := byte(1)
		for i, n := range o.Writes {
			if i > 0 {
				s.Gate("h.nextWrite")
			}
			p := make([]byte, n)
			for j := range p {
				p[j] = next
				next++
			}
			all = append(all, p...)
			if _, err := rw.Write(p); err != nil {
				closeErr = err
				return
			}
			// the io.Writer contract: the caller may reuse p once Write returned
			for j := range p {
				p[j] = 0xee
			}
		}
		if len(o.Writes) > 0 {
			s.Gate("h.beforeClose")
		}
		closeErr = rw.Close()
		closed = true
	})
	s.Go("R", func() {
		buf := make([]byte, o.Cap)
		for {
			n, err := rw.Read(buf)
			taken = append(taken, buf[:n]...)
			if err == io.EOF {
				break
			}
			if err != nil {
				break
			}
		}
		rw.Done()
	})
	fail := func(i int, kind, d string) result {
		res.Status, res.Owner, res.Mismatch = "violation", "C12", &mismatch{Step: i, Kind: kind, Detail: d}
		s.Finish()
		return res
	}
	for i, name := range o.Sched {
		a := s.Actor(name)
		if a == nil || a.State != sched.Parked {
			// the real code is not where the specification says it is: drift, judged on the outcome below
			res.Drift++
			break
		}
		if err := s.Step(a); err != nil {
			res.Status, res.Error = "error", err.Error()
			s.Finish()
			return res
		}
		if len(s.Panics) > 0 {
			return fail(i, "panic", s.Panics[0])
		}
	}
	// let whatever can still run finish (after a drift the schedule is completed greedily)
	for guard := 0; guard < 1000 && s.HarnessAlive(); guard++ {
		parked := s.Parked()
		if len(parked) == 0 {
			break
		}
		if res.Drift == 0 && !o.Stuck {
			res.Drift++
		}
		if err := s.Step(parked[0]); err != nil {
			break
		}
	}
	stuck := s.HarnessAlive()
	detail := fmt.Sprintf("writes %v, reader buffer %d, schedule %v", o.Writes, o.Cap, o.Sched)
	if stuck {
		bl := s.BlockedActors()
		return fail(len(o.Sched), "stuck", fmt.Sprintf("Close never returns: every actor is blocked (%v); %s", bl, detail))
	}
	s.Finish()
	if closed && closeErr == nil && !bytes.Equal(taken, all) {
		return fail(len(o.Sched), "content", fmt.Sprintf("Close returned nil but the storing side got %d of %d bytes (%v vs %v); %s", len(taken), len(all), taken, all, detail))
	}
	if closed != o.CloseReturned || (closed && len(taken) != o.Taken) {
		res.Drift++
	}
	return res
}

func main() {
	in := flag.String("in", "", "outcomes emitted by AsyncRW.tla")
	from := flag.Int("from", 0, "first line")
	count := flag.Int("count", -1, "number of lines")
	flag.Int64("seed", 1, "ignored")
	flag.String("mode", "", "ignored")
	flag.Bool("fs", true, "ignored")
	flag.Parse()
	f, err := os.Open(*in)
	if err != nil {
		fmt.Fprintln(os.Stderr, err)
		os.Exit(2)
	}
	defer f.Close()
	sc := bufio.NewScanner(f)
	sc.Buffer(make([]byte, 1<<20), 1<<26)
	w := bufio.NewWriter(os.Stdout)
	defer w.Flush()
	enc := json.NewEncoder(w)
	n := 0
	for line := 0; sc.Scan(); line++ {
		if line < *from {
			continue
		}
		if *count >= 0 && n >= *count {
			break
		}
		n++
		var os_ []outcome
		if err := json.Unmarshal(sc.Bytes(), &os_); err != nil || len(os_) != 1 {
			enc.Encode(result{Id: line, Status: "error", Error: fmt.Sprint("parse: ", err)})
			continue
		}
		r := judge(line, os_[0])
		enc.Encode(r)
		if r.Status == "violation" && r.Mismatch.Kind == "stuck" {
			// blocked goroutines of this execution stay behind; start the next one in a fresh process
			w.Flush()
			os.Exit(3)
		}
	}
}
