// Command procs replays behaviours of Reopen.tla: several database instances opened and
// closed in several operating-system processes. The parent splits a behaviour at its
// "newproc" steps and runs each segment in a fresh child process (a fresh process-wide
// sequence counter), over the same directories.
package main

import (
	"bufio"
	"bytes"
	"context"
	"encoding/json"
	"flag"
	"fmt"
	"os"
	"os/exec"
	"path/filepath"
	"sort"
	"strings"
	"time"

	"github.com/glebziz/fs_db"
	"github.com/glebziz/fs_db/config"
	"github.com/glebziz/fs_db/pkg/inline"

	"fsdbverif/drv"
)

type obs struct {
	I string `json:"i"`
	K string `json:"k"`
	V int    `json:"v"`
	P int    `json:"p"`
}

type args struct {
	I string `json:"i"`
	K string `json:"k"`
	C int    `json:"c"`
}

type step struct {
	Op  string `json:"op"`
	A   args   `json:"a"`
	Obs []obs  `json:"obs"`
	N   int    `json:"n"` // global index, filled by the parent
}

type mismatch struct {
	Step   int    `json:"step"`
	Kind   string `json:"kind"`
	Detail string `json:"detail"`
}

type result struct {
	Id       int       `json:"id"`
	Mode     string    `json:"mode"`
	Status   string    `json:"status"`
	Owner    string    `json:"owner,omitempty"`
	Mismatch *mismatch `json:"mismatch,omitempty"`
	Drift    int       `json:"drift"`
	Steps    int       `json:"steps"`
	Error    string    `json:"error,omitempty"`
}

func cfgOf(base, inst string) config.Config {
	d := filepath.Join(base, inst)
	return config.Config{
		Storage: config.Storage{DbPath: filepath.Join(d, "db"), MaxDirCount: 100, RootDirs: []string{filepath.Join(d, "r1")}, GCPeriod: time.Hour},
		WPool:   config.WPool{NumWorkers: 2, SendDuration: time.Millisecond},
	}
}

// child executes one segment and prints one result line.
func child(base string, seed int64) {
	drv.Quiet()
	var steps []step
	if err := json.NewDecoder(os.Stdin).Decode(&steps); err != nil {
		fmt.Println(`{"status":"error","error":"decode"}`)
		return
	}
	ctx := context.Background()
	m := drv.NewMapping(seed)
	open := map[string]fs_db.DB{}
	res := result{Status: "ok"}
	emit := func() {
		b, _ := json.Marshal(res)
		fmt.Println(string(b))
	}
	for _, s := range steps {
		var err error
		switch s.Op {
		case "open":
			var db fs_db.DB
			db, err = inline.Open(ctx, cfgOf(base, s.A.I))
			if err == nil {
				open[s.A.I] = db
			}
		case "close":
			err = open[s.A.I].Close()
			delete(open, s.A.I)
		case "set":
			err = drv.Write(ctx, open[s.A.I], m.Key(s.A.K), m.Content(s.A.C), int(seed)+s.A.C)
		case "del":
			err = open[s.A.I].Delete(ctx, m.Key(s.A.K))
		}
		if err != nil {
			res.Status = "violation"
			res.Mismatch = &mismatch{Step: s.N, Kind: "res", Detail: fmt.Sprintf("%s(%s) failed: %v", s.Op, s.A.I, err)}
			emit()
			return
		}
		sort.Slice(s.Obs, func(a, b int) bool {
			if s.Obs[a].I != s.Obs[b].I {
				return s.Obs[a].I < s.Obs[b].I
			}
			return s.Obs[a].K < s.Obs[b].K
		})
		want := map[string][]string{}
		for _, o := range s.Obs {
			if _, ok := want[o.I]; !ok {
				want[o.I] = []string{}
			}
			b, rErr := drv.Read(ctx, open[o.I], m.Key(o.K), s.N)
			cls := drv.Class(rErr)
			matches := func(tag int) bool {
				if tag == 0 {
					return cls == "notfound"
				}
				return cls == "ok" && bytes.Equal(b, m.Content(tag))
			}
			if !matches(o.P) {
				got := cls
				if cls == "ok" {
					got = fmt.Sprintf("%d bytes", len(b))
					for c := 1; c < 64; c++ {
						if bytes.Equal(b, m.Content(c)) {
							got = fmt.Sprintf("content#%d", c)
						}
					}
				}
				res.Status = "violation"
				res.Mismatch = &mismatch{Step: s.N, Kind: "obs", Detail: fmt.Sprintf("after %s(%s): instance %s key %s read %s, promise content#%d (0 = NotFound; mechanism %d)", s.Op, s.A.I, o.I, o.K, got, o.P, o.V)}
				emit()
				return
			}
			if !matches(o.V) {
				res.Drift++
			}
			if o.P != 0 {
				want[o.I] = append(want[o.I], m.Key(o.K))
			}
		}
		for inst, w := range want {
			keys, kErr := open[inst].GetKeys(ctx)
			sort.Strings(w)
			if kErr != nil || strings.Join(keys, "\x01") != strings.Join(w, "\x01") {
				res.Status = "violation"
				res.Mismatch = &mismatch{Step: s.N, Kind: "keys", Detail: fmt.Sprintf("after %s(%s): instance %s GetKeys %q (%v), promise %q", s.Op, s.A.I, inst, keys, kErr, w)}
				emit()
				return
			}
		}
	}
	for _, db := range open {
		db.Close()
	}
	emit()
}

func judge(self string, id int, steps []step, seed int64, baseDir string) result {
	res := result{Id: id, Mode: "procs", Steps: len(steps), Status: "ok"}
	base, err := os.MkdirTemp(baseDir, "p")
	if err != nil {
		res.Status, res.Error = "error", err.Error()
		return res
	}
	defer os.RemoveAll(base)
	for i := range steps {
		steps[i].N = i
	}
	var seg []step
	run := func() bool {
		if len(seg) == 0 {
			return true
		}
		in, _ := json.Marshal(seg)
		cmd := exec.Command(self, "-child", "-base", base, "-seed", fmt.Sprint(seed))
		cmd.Stdin = bytes.NewReader(in)
		var out, errb bytes.Buffer
		cmd.Stdout, cmd.Stderr = &out, &errb
		done := make(chan error, 1)
		if err := cmd.Start(); err != nil {
			res.Status, res.Error = "error", err.Error()
			return false
		}
		go func() { done <- cmd.Wait() }()
		select {
		case err := <-done:
			if err != nil {
				res.Status = "crash"
				res.Error = fmt.Sprintf("child: %v: %s", err, tail(errb.String()))
				return false
			}
		case <-time.After(120 * time.Second):
			cmd.Process.Kill()
			res.Status, res.Error = "error", "child timed out"
			return false
		}
		var cr result
		if err := json.Unmarshal(bytes.TrimSpace(out.Bytes()), &cr); err != nil {
			res.Status, res.Error = "error", "child output: "+out.String()
			return false
		}
		res.Drift += cr.Drift
		if cr.Status != "ok" {
			res.Status, res.Mismatch, res.Error = cr.Status, cr.Mismatch, cr.Error
			return false
		}
		seg = nil
		return true
	}
	for _, s := range steps {
		if s.Op == "newproc" {
			if !run() {
				break
			}
			continue
		}
		seg = append(seg, s)
	}
	if res.Status == "ok" {
		run()
	}
	if res.Status == "violation" {
		// a disagreement before anything was closed or restarted, with a single instance ever opened,
		// is not about reopening
		res.Owner = "C01"
		insts := map[string]bool{}
		for i := 0; i <= res.Mismatch.Step && i < len(steps); i++ {
			if steps[i].Op == "open" {
				insts[steps[i].A.I] = true
			}
			if steps[i].Op == "close" || steps[i].Op == "newproc" || len(insts) > 1 {
				res.Owner = "C05"
			}
		}
	}
	return res
}

func tail(s string) string {
	if len(s) > 1500 {
		return s[len(s)-1500:]
	}
	return s
}

func main() {
	var (
		in      = flag.String("in", "", "behaviours of Reopen.tla, one JSON array per line")
		seed    = flag.Int64("seed", 1, "seed")
		base    = flag.String("base", "/dev/shm", "scratch directory")
		from    = flag.Int("from", 0, "first line")
		count   = flag.Int("count", -1, "number of lines")
		isChild = flag.Bool("child", false, "run one segment (internal)")
		mode    = flag.String("mode", "procs", "ignored")
		fs      = flag.Bool("fs", true, "ignored")
	)
	flag.Parse()
	_, _ = mode, fs
	if *isChild {
		child(*base, *seed)
		return
	}
	self, _ := os.Executable()
	f, err := os.Open(*in)
	if err != nil {
		fmt.Fprintln(os.Stderr, err)
		os.Exit(2)
	}
	defer f.Close()
	sc := bufio.NewScanner(f)
	sc.Buffer(make([]byte, 1<<20), 1<<28)
	w := bufio.NewWriter(os.Stdout)
	defer w.Flush()
	enc := json.NewEncoder(w)
	n := 0
	for line := 0; sc.Scan(); line++ {
		if line < *from {
			continue
		}
		if *count >= 0 && n >= *count {
			break
		}
		n++
		var steps []step
		if err := json.Unmarshal(sc.Bytes(), &steps); err != nil {
			enc.Encode(result{Id: line, Status: "error", Error: "parse: " + err.Error()})
			continue
		}
		enc.Encode(judge(self, line, steps, *seed+int64(line), *base))
	}
}
