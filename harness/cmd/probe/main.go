// Command probe: ad-hoc experiments (not part of any check).
package main

import (
	"context"
	"errors"
	"fmt"
	"os"
	"strings"

	"github.com/glebziz/fs_db"

	"fsdbverif/drv"
)

func main() {
	drv.Quiet()
	dir, _ := os.MkdirTemp("/dev/shm", "probe")
	defer os.RemoveAll(dir)
	d, err := drv.OpenExternal(drv.NewConfig(dir, 1))
	if err != nil {
		panic(err)
	}
	defer d.Close()
	ctx := context.Background()
	db := d.DB()
	// long keys
	for _, n := range []int{1000, 70000, 1 << 20, 5 << 20} {
		k := strings.Repeat("k", n)
		err := db.Set(ctx, k, []byte("v"))
		b, gerr := db.Get(ctx, k)
		fmt.Printf("key of %d bytes: set=%v get=%q %v\n", n, short(err), b, short(gerr))
	}
	// many keys
	n := 0
	for i := 0; i < 60000; i++ {
		k := fmt.Sprintf("key-%06d-%s", i, strings.Repeat("x", 90))
		if err := db.Set(ctx, k, []byte("v")); err != nil {
			fmt.Println("set failed", i, err)
			break
		}
		n++
		if n%15000 == 0 {
			ks, err := db.GetKeys(ctx)
			fmt.Printf("%d keys stored: GetKeys -> %d keys, err=%v nospace=%v\n", n, len(ks), short(err), errors.Is(err, fs_db.ErrNoFreeSpace))
		}
	}
}

func short(err error) string {
	if err == nil {
		return "nil"
	}
	s := err.Error()
	if len(s) > 200 {
		s = s[:200]
	}
	return s
}
