// Command conf replays the configuration cases emitted by TLC from Config.tla through
// config.ParseConfig and Storage.Valid, on a real YAML file and the real process environment.
package main

import (
	"bufio"
	"encoding/json"
	"errors"
	"flag"
	"fmt"
	"os"
	"path/filepath"
	"reflect"
	"runtime"
	"strings"
	"time"

	"github.com/glebziz/fs_db"
	"github.com/glebziz/fs_db/config"
)

type entry struct {
	C       map[string]string `json:"c"`
	Parse   string            `json:"parse"`
	Src     map[string]string `json:"src"`
	Valid   string            `json:"valid"`
	Clamped bool              `json:"clamped"`
}

type mismatch struct {
	Step   int    `json:"step"`
	Kind   string `json:"kind"`
	Detail string `json:"detail"`
}

type result struct {
	Id       int       `json:"id"`
	Mode     string    `json:"mode"`
	Status   string    `json:"status"`
	Owner    string    `json:"owner,omitempty"`
	Mismatch *mismatch `json:"mismatch,omitempty"`
	Drift    int       `json:"drift"`
	Error    string    `json:"error,omitempty"`
}

type setting struct {
	env, yamlPath              string
	fileVal, fileZero, fileBad string // YAML scalars / flow values
	envVal, envLow, envBad     string
}

var settings = map[string]setting{
	"port":         {env: "PORT", yamlPath: "port", fileVal: "1111", fileBad: "abc", envVal: "2222", envBad: "12x"},
	"dbPath":       {env: "DB_PATH", yamlPath: "storage.dbPath", fileVal: "/f/db", fileZero: `""`, envVal: "/e/db"},
	"dirCount":     {env: "DIR_COUNT", yamlPath: "storage.maxDirCount", fileVal: "5000", fileZero: "5", fileBad: "-3", envVal: "7000", envLow: "7", envBad: "-3"},
	"rootDirs":     {env: "ROOT_DIRS", yamlPath: "storage.rootDirs", fileVal: "[/f/r1, /f/r2]", fileZero: "[]", fileBad: "{a: b}", envVal: "/e/r1;/e/r2"},
	"gcPeriod":     {env: "GC_PERIOD", yamlPath: "storage.gcPeriod", fileVal: "90s", fileBad: "1x", envVal: "45s", envBad: "1x"},
	"numWorkers":   {env: "NUM_WORKERS", yamlPath: "wPool.numWorkers", fileVal: "3", fileBad: "abc", envVal: "5", envBad: "5.5"},
	"sendDuration": {env: "SEND_DURATION", yamlPath: "wPool.sendDuration", fileVal: "3ms", fileBad: "zz", envVal: "7ms", envBad: "zz"},
}

// oneRoot: this case spells the environment's root list with a single root (a list of one behaves differently in slices)
var oneRoot bool

// expected effective value per setting and source
func expected(name, src string) any {
	if name == "rootDirs" && src == "env" && oneRoot {
		return []string{"/e/only"}
	}
	switch name {
	case "port":
		return map[string]any{"def": 8888, "file": 1111, "env": 2222}[src]
	case "dbPath":
		return map[string]any{"def": "test_db", "file": "/f/db", "env": "/e/db", "zero": ""}[src]
	case "dirCount":
		return map[string]any{"def": uint64(1000000), "file": uint64(5000), "env": uint64(7000), "zero": uint64(5), "low": uint64(7)}[src]
	case "rootDirs":
		return map[string]any{"def": []string{"./testStorage"}, "file": []string{"/f/r1", "/f/r2"}, "env": []string{"/e/r1", "/e/r2"}, "zero": []string{}}[src]
	case "gcPeriod":
		return map[string]any{"def": time.Minute, "file": 90 * time.Second, "env": 45 * time.Second}[src]
	case "numWorkers":
		return map[string]any{"def": runtime.GOMAXPROCS(0), "file": 3, "env": 5}[src]
	case "sendDuration":
		return map[string]any{"def": time.Millisecond, "file": 3 * time.Millisecond, "env": 7 * time.Millisecond}[src]
	}
	return nil
}

func actual(c config.Config, name string) any {
	switch name {
	case "port":
		return c.Port
	case "dbPath":
		return c.Storage.DbPath
	case "dirCount":
		return c.Storage.MaxDirCount
	case "rootDirs":
		if c.Storage.RootDirs == nil {
			return []string{}
		}
		return c.Storage.RootDirs
	case "gcPeriod":
		return c.Storage.GCPeriod
	case "numWorkers":
		return c.WPool.NumWorkers
	case "sendDuration":
		return c.WPool.SendDuration
	}
	return nil
}

func judge(id int, e entry, dir string) result {
	res := result{Id: id, Mode: "conf", Status: "ok"}
	fail := func(kind, d string) result {
		res.Status, res.Owner, res.Mismatch = "violation", "C20", &mismatch{Kind: kind, Detail: fmt.Sprintf("%s [case %v]", d, compact(e.C))}
		return res
	}
	sections := map[string][]string{}
	anyFile := false
	oneRoot = id%2 == 1
	for name, s := range settings {
		if name == "rootDirs" && oneRoot {
			s.envVal = "/e/only"
		}
		os.Unsetenv(s.env)
		st := e.C[name]
		var fv string
		switch st {
		case "F", "B", "EF", "MB":
			fv = s.fileVal
		case "FZ":
			fv = s.fileZero
		case "MF":
			fv = s.fileBad
		}
		if fv != "" {
			anyFile = true
			parts := strings.Split(s.yamlPath, ".")
			if len(parts) == 1 {
				sections[""] = append(sections[""], parts[0]+": "+fv)
			} else {
				sections[parts[0]] = append(sections[parts[0]], "  "+parts[1]+": "+fv)
			}
		}
		switch st {
		case "E", "B":
			os.Setenv(s.env, s.envVal)
		case "EE", "EF":
			os.Setenv(s.env, "")
		case "EZ":
			os.Setenv(s.env, s.envLow)
		case "ME", "MB":
			os.Setenv(s.env, s.envBad)
		}
	}
	path := ""
	if anyFile || id%3 != 0 { // without file settings: no file at all, or an empty file
		var sb strings.Builder
		for _, l := range sections[""] {
			sb.WriteString(l + "\n")
		}
		for _, sec := range []string{"storage", "wPool"} {
			if len(sections[sec]) > 0 {
				sb.WriteString(sec + ":\n" + strings.Join(sections[sec], "\n") + "\n")
			}
		}
		path = filepath.Join(dir, "c.yaml")
		if err := os.WriteFile(path, []byte(sb.String()), 0o600); err != nil {
			res.Status, res.Error = "error", err.Error()
			return res
		}
	}
	cfg, err := config.ParseConfig(path)
	if (err != nil) != (e.Parse == "error") {
		return fail("parse", fmt.Sprintf("ParseConfig error = %v, specification says %s", err, e.Parse))
	}
	if err != nil {
		return res
	}
	for name := range settings {
		want, got := expected(name, e.Src[name]), actual(cfg, name)
		if !reflect.DeepEqual(want, got) {
			return fail("value", fmt.Sprintf("%s = %v, specification says %v (source %s)", name, got, want, e.Src[name]))
		}
	}
	before := cfg.Storage.MaxDirCount
	vErr := cfg.Storage.Valid()
	cls := "ok"
	switch {
	case errors.Is(vErr, fs_db.ErrEmptyDbPath):
		cls = "emptydbpath"
	case errors.Is(vErr, fs_db.ErrEmptyRootDirs):
		cls = "emptyroots"
	case vErr != nil:
		cls = "err:" + vErr.Error()
	}
	if cls != e.Valid {
		return fail("valid", fmt.Sprintf("Valid() = %s, specification says %s", cls, e.Valid))
	}
	wantCount := before
	if e.Clamped {
		wantCount = 100
	}
	if cfg.Storage.MaxDirCount != wantCount {
		return fail("clamp", fmt.Sprintf("directory limit after Valid = %d, specification says %d", cfg.Storage.MaxDirCount, wantCount))
	}
	return res
}

func compact(c map[string]string) string {
	var parts []string
	for k, v := range c {
		if v != "A" {
			parts = append(parts, k+"="+v)
		}
	}
	return strings.Join(parts, ",")
}

func main() {
	in := flag.String("in", "", "cases emitted by Config.tla")
	from := flag.Int("from", 0, "first line")
	count := flag.Int("count", -1, "number of lines")
	base := flag.String("base", "/dev/shm", "scratch directory")
	flag.Int64("seed", 1, "ignored")
	flag.String("mode", "", "ignored")
	flag.Bool("fs", true, "ignored")
	flag.Parse()
	dir, err := os.MkdirTemp(*base, "conf")
	if err != nil {
		fmt.Fprintln(os.Stderr, err)
		os.Exit(2)
	}
	defer os.RemoveAll(dir)
	f, err := os.Open(*in)
	if err != nil {
		fmt.Fprintln(os.Stderr, err)
		os.Exit(2)
	}
	defer f.Close()
	sc := bufio.NewScanner(f)
	sc.Buffer(make([]byte, 1<<20), 1<<28)
	w := bufio.NewWriter(os.Stdout)
	defer w.Flush()
	enc := json.NewEncoder(w)
	n := 0
	for line := 0; sc.Scan(); line++ {
		if line < *from {
			continue
		}
		if *count >= 0 && n >= *count {
			break
		}
		n++
		var es []entry
		if err := json.Unmarshal(sc.Bytes(), &es); err != nil || len(es) != 1 {
			enc.Encode(result{Id: line, Status: "error", Error: fmt.Sprint("parse: ", err)})
			continue
		}
		enc.Encode(judge(line, es[0], dir))
	}
}
