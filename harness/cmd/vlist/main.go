// Command vlist replays behaviours of VersionList.tla on the real per-key version list
// (model/core through pkg/verif.NewVList) and compares every result, the list content,
// the array mirror, Latest and LastBefore for every probe.
package main

import (
	"bufio"
	"encoding/json"
	"flag"
	"fmt"
	"os"
	"strconv"

	"github.com/glebziz/fs_db/pkg/verif"
)

type entry struct {
	Op     string            `json:"op"`
	X      int               `json:"x"`
	Res    json.RawMessage   `json:"res"`
	Seqs   []uint64          `json:"seqs"`
	Latest uint64            `json:"latest"`
	Lb     map[string]uint64 `json:"lb"`
}

type mismatch struct {
	Step   int    `json:"step"`
	Kind   string `json:"kind"`
	Detail string `json:"detail"`
}

type result struct {
	Id       int       `json:"id"`
	Mode     string    `json:"mode"`
	Status   string    `json:"status"`
	Owner    string    `json:"owner,omitempty"`
	Mismatch *mismatch `json:"mismatch,omitempty"`
	Drift    int       `json:"drift"`
	Steps    int       `json:"steps"`
	Error    string    `json:"error,omitempty"`
}

func eq(a, b []uint64) bool {
	if len(a) != len(b) {
		return false
	}
	for i := range a {
		if a[i] != b[i] {
			return false
		}
	}
	return true
}

func judge(id int, es []entry) (res result) {
	res = result{Id: id, Mode: "vlist", Status: "ok", Steps: len(es)}
	defer func() {
		if r := recover(); r != nil {
			res.Status, res.Owner = "violation", "C18"
			res.Mismatch = &mismatch{Kind: "panic", Detail: fmt.Sprint("the real list panicked: ", r)}
		}
	}()
	l := verif.NewVList("k", false)
	fail := func(i int, kind, d string) result {
		res.Status, res.Owner = "violation", "C18"
		res.Mismatch = &mismatch{Step: i, Kind: kind, Detail: d}
		return res
	}
	for i, e := range es {
		switch e.Op {
		case "init":
			for _, s := range e.Seqs {
				l.PushBack(s, fmt.Sprint("c", s))
			}
			continue
		case "table":
		case "push":
			l.PushBack(uint64(e.X), fmt.Sprint("c", e.X))
		case "popfront", "popback":
			var want uint64
			json.Unmarshal(e.Res, &want)
			var got uint64
			if e.Op == "popfront" {
				got = l.PopFront()
			} else {
				got = l.PopBack()
			}
			if got != want {
				return fail(i, "res", fmt.Sprintf("%s returned %d, specification %d", e.Op, got, want))
			}
		case "collect":
			var want []uint64
			json.Unmarshal(e.Res, &want)
			got := l.Collect(uint64(e.X))
			if !eq(got, want) {
				return fail(i, "res", fmt.Sprintf("collect(%d) removed %v, specification %v", e.X, got, want))
			}
		default:
			res.Status, res.Error = "error", "unknown op "+e.Op
			return res
		}
		got := l.Seqs()
		if got == nil && len(e.Seqs) > 0 {
			return fail(i, "mirror", fmt.Sprintf("after %s: the array mirror does not hold the nodes of the list", e.Op))
		}
		if !eq(got, e.Seqs) {
			return fail(i, "list", fmt.Sprintf("after %s: list %v, specification %v", e.Op, got, e.Seqs))
		}
		if lt := l.Latest(); lt != e.Latest {
			return fail(i, "latest", fmt.Sprintf("after %s: Latest %d, specification %d", e.Op, lt, e.Latest))
		}
		for ps, want := range e.Lb {
			p, _ := strconv.Atoi(ps)
			if g := l.LastBefore(uint64(p)); g != want {
				return fail(i, "lastbefore", fmt.Sprintf("after %s on %v: LastBefore(%d) = %d, specification %d", e.Op, e.Seqs, p, g, want))
			}
		}
	}
	return res
}

func main() {
	in := flag.String("in", "", "behaviours of VersionList.tla")
	from := flag.Int("from", 0, "first line")
	count := flag.Int("count", -1, "number of lines")
	flag.Int64("seed", 1, "ignored")
	flag.String("mode", "", "ignored")
	flag.Bool("fs", true, "ignored")
	flag.Parse()
	f, err := os.Open(*in)
	if err != nil {
		fmt.Fprintln(os.Stderr, err)
		os.Exit(2)
	}
	defer f.Close()
	sc := bufio.NewScanner(f)
	sc.Buffer(make([]byte, 1<<20), 1<<28)
	w := bufio.NewWriter(os.Stdout)
	defer w.Flush()
	enc := json.NewEncoder(w)
	n := 0
	for line := 0; sc.Scan(); line++ {
		if line < *from {
			continue
		}
		if *count >= 0 && n >= *count {
			break
		}
		n++
		var es []entry
		if err := json.Unmarshal(sc.Bytes(), &es); err != nil {
			enc.Encode(result{Id: line, Status: "error", Error: "parse: " + err.Error()})
			continue
		}
		enc.Encode(judge(line, es))
	}
}
