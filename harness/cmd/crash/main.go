// Command crash replays workloads emitted by TLC from FsDbCrash.tla with a kill at every
// persistent mutation: a child process executes the workload against the real inline database
// with the mutation hook installed (os wrapper functions, content file Write/Close, Badger
// Set/Delete/transaction), logs every mutation label and every acknowledged call, and kills
// itself with SIGKILL immediately before mutation n. Fresh child processes then reopen the
// database (optionally killing themselves at mutation m of the recovery), and the recovered
// committed view is compared with what the specification allows: the view after the last
// acknowledged call, or that view overridden by the whole call that was in progress.
package main

import (
	"bufio"
	"bytes"
	"context"
	"encoding/json"
	"flag"
	"fmt"
	"os"
	"os/exec"
	"path/filepath"
	"sort"
	"strings"
	"syscall"
	"time"

	"github.com/glebziz/fs_db"
	"github.com/glebziz/fs_db/config"
	"github.com/glebziz/fs_db/pkg/inline"
	"github.com/glebziz/fs_db/pkg/verif"

	"fsdbverif/drv"
)

type wop struct {
	Op      string         `json:"op"`
	T       int            `json:"t"`
	K       string         `json:"k"`
	C       int            `json:"c"`
	Labels  []string       `json:"labels"`
	Cleaned int            `json:"cleaned"`
	View    map[string]int `json:"view"`
}

type mismatch struct {
	Step   int    `json:"step"`
	Kind   string `json:"kind"`
	Detail string `json:"detail"`
}

type result struct {
	Id       int       `json:"id"`
	Mode     string    `json:"mode"`
	Status   string    `json:"status"`
	Owner    string    `json:"owner,omitempty"`
	Mismatch *mismatch `json:"mismatch,omitempty"`
	Drift    int       `json:"drift"`
	Points   int       `json:"points"`
	Double   int       `json:"double"`
	Muts     int       `json:"mutations"`
	Error    string    `json:"error,omitempty"`
}

type observation struct {
	View  map[string][]int `json:"view"` // key -> content tags the bytes read equal (several when contents coincide); empty: not found; [-1]: unreadable / unknown
	Keys  []string         `json:"keys"`
	Error string           `json:"error,omitempty"`
	Muts  int              `json:"muts"`
}

func cfgOf(base string) config.Config {
	return config.Config{
		Storage: config.Storage{DbPath: filepath.Join(base, "db"), MaxDirCount: 100, RootDirs: []string{filepath.Join(base, "r1")}, GCPeriod: time.Hour},
		WPool:   config.WPool{NumWorkers: 1, SendDuration: time.Hour},
	}
}

var keys = []string{"k1", "k2", "k3"}

// installKill logs every mutation label and kills the process before mutation number kill (0: never).
func installKill(logPath string, kill int) *int {
	f, err := os.OpenFile(logPath, os.O_CREATE|os.O_WRONLY|os.O_APPEND, 0o644)
	if err != nil {
		panic(err)
	}
	n := new(int)
	var mu chan struct{} = make(chan struct{}, 1)
	mu <- struct{}{}
	verif.SetMut(func(kind, target string) {
		<-mu
		*n++
		if kill > 0 && *n == kill {
			syscall.Kill(os.Getpid(), syscall.SIGKILL)
			select {} // not reached: SIGKILL cannot be handled
		}
		lbl := kind
		switch {
		case strings.HasPrefix(target, "fileContent/"):
			lbl += ":fileContent"
		case strings.HasPrefix(target, "file/"):
			lbl += ":file"
		}
		f.WriteString("M " + lbl + "\n")
		mu <- struct{}{}
	})
	return n
}

func note(logPath, line string) {
	f, _ := os.OpenFile(logPath, os.O_CREATE|os.O_WRONLY|os.O_APPEND, 0o644)
	f.WriteString(line + "\n")
	f.Close()
}

func childRun(base, logPath string, kill int, seed int64) {
	drv.InstallCounters()
	var ops []wop
	if err := json.NewDecoder(os.Stdin).Decode(&ops); err != nil {
		os.Exit(4)
	}
	ctx := context.Background()
	m := drv.NewMapping(seed)
	killAck := 0
	if kill < 0 {
		killAck, kill = -kill, 0 // die right after that many calls were acknowledged, not before a mutation
	}
	installKill(logPath, kill)
	drv.ResetCounters()
	db, err := inline.Open(ctx, cfgOf(base))
	if err != nil {
		fmt.Fprintln(os.Stderr, "open:", err)
		os.Exit(4)
	}
	drv.WaitIdle(5 * time.Second)
	note(logPath, "O")
	var tx fs_db.Tx
	store := func(t int) fs_db.Store {
		if t == 0 {
			return db
		}
		return tx
	}
	for i, o := range ops {
		var err error
		switch o.Op {
		case "set":
			err = drv.Write(ctx, store(o.T), m.Key(o.K), m.Content(o.C), int(seed)+o.C)
		case "del":
			err = store(o.T).Delete(ctx, m.Key(o.K))
		case "begin":
			tx, err = db.Begin(ctx, fs_db.IsoLevelReadCommitted)
		case "commit":
			err = tx.Commit(ctx)
		case "rollback":
			err = tx.Rollback(ctx)
		case "gc":
			err = verif.GC(db)
		}
		if err != nil {
			note(logPath, fmt.Sprintf("E %d %v", i+1, err))
			os.Exit(5)
		}
		note(logPath, fmt.Sprintf("A %d", i+1))
		if killAck == i+1 {
			syscall.Kill(os.Getpid(), syscall.SIGKILL) // the caller has its answer; nothing else gets a chance to run
			select {}
		}
		drv.WaitIdle(5 * time.Second)
		note(logPath, fmt.Sprintf("I %d", i+1))
	}
	db.Close()
	note(logPath, "C")
}

// childSecondLife reopens the crashed database, performs one more acknowledged autocommit write and is killed.
func childSecondLife(base string, seed int64, tag int) {
	drv.InstallCounters()
	ctx := context.Background()
	m := drv.NewMapping(seed)
	db, err := inline.Open(ctx, cfgOf(base))
	if err != nil {
		fmt.Println("E open " + err.Error())
		return
	}
	if err := db.Set(ctx, m.Key("k1"), m.Content(tag)); err != nil {
		fmt.Println("E set " + err.Error())
		return
	}
	b, err := db.Get(ctx, m.Key("k1"))
	if err != nil || !bytes.Equal(b, m.Content(tag)) {
		fmt.Println("E readback")
		return
	}
	fmt.Println("ACK")
	os.Stdout.Sync()
	syscall.Kill(os.Getpid(), syscall.SIGKILL)
	select {}
}

func childRecover(base, logPath string, kill int, seed int64, ntags int) {
	drv.InstallCounters()
	ctx := context.Background()
	m := drv.NewMapping(seed)
	n := installKill(logPath, kill)
	drv.ResetCounters()
	obs := observation{View: map[string][]int{}, Keys: []string{}}
	db, err := inline.Open(ctx, cfgOf(base))
	if err != nil {
		obs.Error = "open: " + err.Error()
		b, _ := json.Marshal(obs)
		fmt.Println(string(b))
		return
	}
	drv.WaitIdle(5 * time.Second)
	back := map[string]string{}
	for _, k := range keys {
		back[m.Key(k)] = k
		b, err := db.Get(ctx, m.Key(k))
		switch drv.Class(err) {
		case "notfound":
			obs.View[k] = []int{}
		case "ok":
			obs.View[k] = []int{}
			for c := 1; c <= ntags; c++ {
				if bytes.Equal(b, m.Content(c)) {
					obs.View[k] = append(obs.View[k], c)
				}
			}
			if len(obs.View[k]) == 0 {
				obs.View[k] = []int{-1}
			}
		default:
			obs.View[k] = []int{-1}
			obs.Error = fmt.Sprintf("get %s: %v", k, err)
		}
	}
	ks, err := db.GetKeys(ctx)
	if err != nil {
		obs.Error = "getkeys: " + err.Error()
	}
	for _, k := range ks {
		if a, ok := back[k]; ok {
			obs.Keys = append(obs.Keys, a)
		} else {
			obs.Keys = append(obs.Keys, "?"+k)
		}
	}
	sort.Strings(obs.Keys)
	obs.Muts = *n
	db.Close()
	b, _ := json.Marshal(obs)
	fmt.Println(string(b))
}

// ---------------------------------------------------------------- a commit of many keys, killed at every point (Bulk.tla)

type bulkScenario struct {
	N    int    `json:"n"`
	Bulk string `json:"bulk"`
}

func bulkKey(i int) string { return fmt.Sprintf("bulk-%05d", i) }

// childBulkRun: a transaction writes n keys and commits; the process dies before mutation number kill (counted from
// the start of Commit). The log says when Commit started and whether it was acknowledged.
func childBulkRun(base, logPath string, kill, n int) {
	drv.InstallCounters()
	ctx := context.Background()
	db, err := inline.Open(ctx, cfgOf(base))
	if err != nil {
		fmt.Fprintln(os.Stderr, "open:", err)
		os.Exit(4)
	}
	tx, err := db.Begin(ctx, fs_db.IsoLevelReadCommitted)
	if err != nil {
		os.Exit(4)
	}
	for i := 0; i < n; i++ {
		if err := tx.Set(ctx, bulkKey(i), []byte{byte(i), byte(i >> 8)}); err != nil {
			fmt.Fprintln(os.Stderr, "set:", err)
			os.Exit(4)
		}
	}
	drv.WaitIdle(10 * time.Second)
	cnt := installKill(logPath, kill)
	note(logPath, "S")
	if err := tx.Commit(ctx); err != nil {
		note(logPath, "E "+err.Error())
		os.Exit(5)
	}
	note(logPath, fmt.Sprintf("A %d", *cnt))
	drv.WaitIdle(10 * time.Second)
	note(logPath, fmt.Sprintf("T %d", *cnt))
	db.Close()
}

// childBulkCheck reopens and prints how many of the n keys read back.
func childBulkCheck(base string, n int) {
	ctx := context.Background()
	db, err := inline.Open(ctx, cfgOf(base))
	if err != nil {
		fmt.Println("E open " + err.Error())
		return
	}
	defer db.Close()
	present := 0
	for i := 0; i < n; i++ {
		b, err := db.Get(ctx, bulkKey(i))
		if err == nil && len(b) == 2 && b[0] == byte(i) && b[1] == byte(i>>8) {
			present++
		}
	}
	ks, _ := db.GetKeys(ctx)
	fmt.Printf("P %d %d\n", present, len(ks))
}

func (r *runner) judgeBulk(id, n int) (res result) {
	res = result{Id: id, Mode: "crash", Status: "ok"}
	failB := func(d string) result {
		res.Status, res.Owner, res.Mismatch = "violation", "C04", &mismatch{Kind: "partial", Detail: d}
		return res
	}
	// dry run: how many persistent mutations does the commit (and the cleanup that follows it) make
	dry, err := os.MkdirTemp(r.base, "bk")
	if err != nil {
		res.Status, res.Error = "error", err.Error()
		return
	}
	lp := filepath.Join(dry, "run.log")
	_, killed, err := r.spawn([]string{"-child", "bulkrun", "-base", dry, "-log", lp, "-kill", "0", "-ntags", fmt.Sprint(n)}, nil)
	total := 0
	for _, l := range readLog(lp) {
		if strings.HasPrefix(l, "T ") {
			fmt.Sscanf(l, "T %d", &total)
		}
	}
	os.RemoveAll(dry)
	if err != nil || killed || total == 0 {
		res.Status, res.Error = "error", fmt.Sprintf("dry run of a commit of %d keys failed: %v (mutations %d)", n, err, total)
		return
	}
	res.Muts = total
	for m := 1; m <= total+1; m++ {
		dir, err := os.MkdirTemp(r.base, "bk")
		if err != nil {
			res.Status, res.Error = "error", err.Error()
			return
		}
		lp := filepath.Join(dir, "run.log")
		_, _, err = r.spawn([]string{"-child", "bulkrun", "-base", dir, "-log", lp, "-kill", fmt.Sprint(m), "-ntags", fmt.Sprint(n)}, nil)
		acked := false
		for _, l := range readLog(lp) {
			acked = acked || strings.HasPrefix(l, "A ")
		}
		for round := 1; round <= 2; round++ {
			out, _, cErr := r.spawn([]string{"-child", "bulkcheck", "-base", dir, "-ntags", fmt.Sprint(n)}, nil)
			present, listed := -1, -1
			fmt.Sscanf(strings.TrimSpace(string(out)), "P %d %d", &present, &listed)
			where := fmt.Sprintf("a transaction wrote %d keys; the process was killed before mutation %d of the %d its Commit makes (acknowledged: %v); reopening %d", n, m, total, acked, round)
			switch {
			case cErr != nil || present < 0:
				os.RemoveAll(dir)
				return failB(fmt.Sprintf("the database does not open / read after the kill (%v %s): %s", cErr, strings.TrimSpace(string(out)), where))
			case present != 0 && present != n:
				os.RemoveAll(dir)
				return failB(fmt.Sprintf("%d of the %d keys are there: the commit is visible in part: %s", present, n, where))
			case acked && present != n:
				os.RemoveAll(dir)
				return failB(fmt.Sprintf("the commit had been acknowledged and none of its keys is there: %s", where))
			case listed != present:
				os.RemoveAll(dir)
				return failB(fmt.Sprintf("GetKeys lists %d keys, %d read back: %s", listed, present, where))
			}
		}
		os.RemoveAll(dir)
	}
	return res
}

type runner struct {
	self string
	seed int64
	base string
}

func (r *runner) spawn(args []string, stdin []byte) (out []byte, killed bool, err error) {
	cmd := exec.Command(r.self, args...)
	cmd.Stdin = bytes.NewReader(stdin)
	var o, e bytes.Buffer
	cmd.Stdout, cmd.Stderr = &o, &e
	if err := cmd.Start(); err != nil {
		return nil, false, err
	}
	done := make(chan error, 1)
	go func() { done <- cmd.Wait() }()
	select {
	case werr := <-done:
		if werr != nil {
			if ee, ok := werr.(*exec.ExitError); ok {
				if ws, ok := ee.Sys().(syscall.WaitStatus); ok && ws.Signaled() && ws.Signal() == syscall.SIGKILL {
					return o.Bytes(), true, nil
				}
			}
			return o.Bytes(), false, fmt.Errorf("child failed: %v: %s", werr, tail(e.String()))
		}
		return o.Bytes(), false, nil
	case <-time.After(120 * time.Second):
		cmd.Process.Kill()
		return nil, false, fmt.Errorf("child timed out")
	}
}

func tail(s string) string {
	if len(s) > 1200 {
		return s[len(s)-1200:]
	}
	return s
}

func readLog(p string) []string {
	b, _ := os.ReadFile(p)
	return strings.Split(strings.TrimSpace(string(b)), "\n")
}

func (r *runner) recoverOnce(dir string, kill int, ntags int) (observation, bool, error) {
	logp := filepath.Join(dir, "recover.log")
	os.Remove(logp)
	out, killed, err := r.spawn([]string{"-child", "recover", "-base", dir, "-log", logp, "-kill", fmt.Sprint(kill), "-seed", fmt.Sprint(r.seed), "-ntags", fmt.Sprint(ntags)}, nil)
	if err != nil {
		return observation{}, false, err
	}
	if killed {
		return observation{}, true, nil
	}
	var obs observation
	if jerr := json.Unmarshal(bytes.TrimSpace(out), &obs); jerr != nil {
		return observation{}, false, fmt.Errorf("recover output: %q", out)
	}
	return obs, false, nil
}

// explains reports whether the observed view is the expected one (a key expected absent reads as not found; a key
// expected to hold content c returned bytes equal to content c)
func explains(obs map[string][]int, want map[string]int) bool {
	for _, k := range keys {
		if want[k] == 0 {
			if len(obs[k]) != 0 {
				return false
			}
			continue
		}
		ok := false
		for _, c := range obs[k] {
			ok = ok || c == want[k]
		}
		if !ok {
			return false
		}
	}
	return true
}

func sameObs(a, b map[string][]int) bool {
	for _, k := range keys {
		if fmt.Sprint(a[k]) != fmt.Sprint(b[k]) {
			return false
		}
	}
	return true
}

func obsStr(v map[string][]int) string {
	var p []string
	for _, k := range keys {
		p = append(p, fmt.Sprintf("%s=%v", k, v[k]))
	}
	return strings.Join(p, " ")
}

func viewStr(v map[string]int) string {
	var p []string
	for _, k := range keys {
		p = append(p, fmt.Sprintf("%s=%d", k, v[k]))
	}
	return strings.Join(p, " ")
}

func (r *runner) judge(id int, ops []wop, points string, double int) (res result) {
	res = result{Id: id, Mode: "crash", Status: "ok"}
	in, _ := json.Marshal(ops)
	ntags := 0
	for _, o := range ops {
		if o.C > ntags {
			ntags = o.C
		}
	}
	fail := func(step int, kind, d string) result {
		res.Status, res.Owner, res.Mismatch = "violation", "C04", &mismatch{Step: step, Kind: kind, Detail: d}
		return res
	}
	// dry run: the mutation labels of the whole workload
	dry, err := os.MkdirTemp(r.base, "cd")
	if err != nil {
		res.Status, res.Error = "error", err.Error()
		return
	}
	defer os.RemoveAll(dry)
	logp := filepath.Join(dry, "run.log")
	if _, killed, err := r.spawn([]string{"-child", "run", "-base", dry, "-log", logp, "-kill", "0", "-seed", fmt.Sprint(r.seed)}, in); err != nil || killed {
		res.Status, res.Error = "error", fmt.Sprint("dry run: ", err)
		return
	}
	lines := readLog(logp)
	total := 0
	var perOp [][]string
	var cur []string
	opened := false
	for _, l := range lines {
		switch {
		case strings.HasPrefix(l, "M "):
			total++
			if opened {
				cur = append(cur, l[2:])
			}
		case l == "O":
			opened = true
		case strings.HasPrefix(l, "I "):
			perOp = append(perOp, cur)
			cur = nil
		}
	}
	res.Muts = total
	// binding: the labels the real code logged are the ones the specification has for each call
	for i, o := range ops {
		if i >= len(perOp) {
			break
		}
		if !labelsMatch(o, perOp[i]) {
			res.Drift++
		}
	}
	// crash points
	var pts []int
	if points == "all" {
		for n := 1; n <= total; n++ {
			pts = append(pts, n)
		}
	} else {
		var step int
		fmt.Sscanf(points, "every:%d", &step)
		if step < 1 {
			step = 1
		}
		for n := 1 + int(r.seed+int64(id))%step; n <= total; n += step {
			pts = append(pts, n)
		}
	}
	// ... and a kill immediately after every acknowledgement (negative numbers): what was acknowledged must be there
	for i := range ops {
		if ops[i].Op != "begin" && (points == "all" || (int(r.seed)+id+i)%2 == 0) {
			pts = append(pts, -(i + 1))
		}
	}
	zero := map[string]int{}
	viewAfter := func(a int) map[string]int {
		if a == 0 {
			return zero
		}
		return ops[a-1].View
	}
	for _, n := range pts {
		dir, err := os.MkdirTemp(r.base, "cr")
		if err != nil {
			res.Status, res.Error = "error", err.Error()
			return
		}
		lp := filepath.Join(dir, "run.log")
		_, killed, err := r.spawn([]string{"-child", "run", "-base", dir, "-log", lp, "-kill", fmt.Sprint(n), "-seed", fmt.Sprint(r.seed)}, in)
		if err != nil {
			os.RemoveAll(dir)
			res.Status, res.Error = "error", fmt.Sprintf("crash run n=%d: %v", n, err)
			return
		}
		acked := 0
		for _, l := range readLog(lp) {
			if strings.HasPrefix(l, "A ") {
				fmt.Sscanf(l, "A %d", &acked)
			}
		}
		if !killed {
			acked = len(ops)
		}
		allowed := []map[string]int{viewAfter(acked)}
		if acked < len(ops) && n > 0 {
			allowed = append(allowed, viewAfter(acked+1))
		}
		where := fmt.Sprintf("workload %s, killed before mutation %d of %d (%d calls acknowledged)", opsStr(ops), n, total, acked)
		if n < 0 {
			where = fmt.Sprintf("workload %s, killed right after call %d was acknowledged", opsStr(ops), -n)
		}
		check := func(obs observation, what string) *result {
			if obs.Error != "" {
				rr := fail(acked, "error", fmt.Sprintf("%s: %s: %s", what, obs.Error, where))
				return &rr
			}
			ok := false
			for _, a := range allowed {
				ok = ok || explains(obs.View, a)
			}
			if !ok {
				var al []string
				for _, a := range allowed {
					al = append(al, "{"+viewStr(a)+"}")
				}
				rr := fail(acked, "view", fmt.Sprintf("%s: recovered {%s}, allowed %s (content tags; [] = not found): %s", what, obsStr(obs.View), strings.Join(al, " or "), where))
				return &rr
			}
			var want []string
			for _, k := range keys {
				if len(obs.View[k]) > 0 {
					want = append(want, k)
				}
			}
			if strings.Join(want, ",") != strings.Join(obs.Keys, ",") {
				rr := fail(acked, "keys", fmt.Sprintf("%s: GetKeys %v but readable keys %v: %s", what, obs.Keys, want, where))
				return &rr
			}
			return nil
		}
		// a pristine copy of the crashed database for the runs that also kill the recovery (content records hold
		// absolute directory paths, so copies are swapped in at the original location)
		ref := dir + ".ref"
		if double > 0 {
			exec.Command("cp", "-a", dir, ref).Run()
		}
		obs1, _, err := r.recoverOnce(dir, 0, ntags)
		if err != nil {
			os.RemoveAll(dir)
			res.Status, res.Error = "error", err.Error()
			return
		}
		res.Points++
		if rr := check(obs1, "after reopening"); rr != nil {
			os.RemoveAll(dir)
			return *rr
		}
		obs2, _, err := r.recoverOnce(dir, 0, ntags)
		if err == nil {
			if rr := check(obs2, "after reopening a second time"); rr != nil {
				os.RemoveAll(dir)
				return *rr
			}
			if !sameObs(obs1.View, obs2.View) {
				os.RemoveAll(dir)
				os.RemoveAll(ref)
				return fail(acked, "unstable", fmt.Sprintf("second reopen gives {%s}, first gave {%s}: %s", obsStr(obs2.View), obsStr(obs1.View), where))
			}
		}
		if double > 0 && obs1.Muts > 0 {
			for m := 1; m <= obs1.Muts && m <= double; m++ {
				os.RemoveAll(filepath.Join(dir, "db"))
				os.RemoveAll(filepath.Join(dir, "r1"))
				exec.Command("cp", "-a", filepath.Join(ref, "db"), filepath.Join(dir, "db")).Run()
				exec.Command("cp", "-a", filepath.Join(ref, "r1"), filepath.Join(dir, "r1")).Run()
				_, k2, err := r.recoverOnce(dir, m, ntags)
				if err != nil || !k2 {
					continue
				}
				obs3, _, err3 := r.recoverOnce(dir, 0, ntags)
				if err3 != nil {
					continue
				}
				res.Double++
				if rr := check(obs3, fmt.Sprintf("after a recovery killed before its mutation %d and a second recovery", m)); rr != nil {
					os.RemoveAll(dir)
					os.RemoveAll(ref)
					return *rr
				}
				if !sameObs(obs3.View, obs1.View) {
					os.RemoveAll(dir)
					os.RemoveAll(ref)
					return fail(acked, "unstable", fmt.Sprintf("a recovery killed before its mutation %d, then recovered, gives {%s}; an uninterrupted recovery gives {%s}: %s", m, obsStr(obs3.View), obsStr(obs1.View), where))
				}
			}
		}
		os.RemoveAll(ref)
		// a second life: the recovered database takes one more acknowledged write and is killed again
		if n%3 == int(r.seed)%3 {
			out, killed2, err := r.spawn([]string{"-child", "second", "-base", dir, "-seed", fmt.Sprint(r.seed), "-ntags", fmt.Sprint(ntags + 1)}, nil)
			if err == nil && killed2 && strings.Contains(string(out), "ACK") {
				obs4, _, err4 := r.recoverOnce(dir, 0, ntags+1)
				if err4 == nil {
					want := map[string]int{}
					for _, k := range keys {
						if len(obs1.View[k]) > 0 {
							want[k] = obs1.View[k][0]
						}
					}
					want["k1"] = ntags + 1
					if obs4.Error != "" || !explains(obs4.View, want) {
						os.RemoveAll(dir)
						return fail(acked, "second-life", fmt.Sprintf("after the recovery a Set of k1 was acknowledged and read back, the process was killed and the database reopened: recovered {%s} %s, expected {%s}: %s",
							obsStr(obs4.View), obs4.Error, viewStr(want), where))
					}
				}
			} else if err == nil && !killed2 {
				os.RemoveAll(dir)
				return fail(acked, "second-life", fmt.Sprintf("a write after the recovery failed: %s: %s", strings.TrimSpace(string(out)), where))
			}
		}
		os.RemoveAll(dir)
	}
	return res
}

func opsStr(ops []wop) string {
	var p []string
	for _, o := range ops {
		s := o.Op
		if o.Op == "set" || o.Op == "del" {
			s = fmt.Sprintf("%s(t%d,%s)", o.Op, o.T, o.K)
		}
		p = append(p, s)
	}
	return strings.Join(p, " ")
}

// labelsMatch compares the labels logged for one call (and the cleaner work that followed it) with the specification's.
func labelsMatch(o wop, real []string) bool {
	i := 0
	for i < len(real) && real[i] == "mkdir" {
		i++
	}
	for _, want := range o.Labels {
		switch want {
		case "write+close":
			for i < len(real) && real[i] == "write" {
				i++
			}
			if i >= len(real) || real[i] != "close" {
				return false
			}
			i++
		default:
			if i >= len(real) || real[i] != want {
				return false
			}
			i++
		}
	}
	rest := real[i:]
	if len(rest) != 3*o.Cleaned {
		return false
	}
	for j := 0; j < len(rest); j += 3 {
		if rest[j] != "remove" || rest[j+1] != "bdel:fileContent" || rest[j+2] != "bdel:file" {
			return false
		}
	}
	return true
}

func main() {
	var (
		in      = flag.String("in", "", "workloads emitted by FsDbCrash.tla")
		from    = flag.Int("from", 0, "first line")
		count   = flag.Int("count", -1, "number of lines")
		seed    = flag.Int64("seed", 1, "seed")
		base    = flag.String("base", "/dev/shm", "scratch directory")
		child   = flag.String("child", "", "internal: run | recover")
		logp    = flag.String("log", "", "internal: log file")
		kill    = flag.Int("kill", 0, "internal: mutation to die before")
		ntags   = flag.Int("ntags", 8, "internal: number of content tags")
		points  = flag.String("points", "all", "crash points: all | every:N")
		double  = flag.Int("double", 0, "also kill the recovery before each of its first N mutations")
		modeArg = flag.String("mode", "", "ignored")
		fsArg   = flag.Bool("fs", true, "ignored")
	)
	flag.Parse()
	_, _ = modeArg, fsArg
	drv.Quiet()
	switch *child {
	case "run":
		childRun(*base, *logp, *kill, *seed)
		return
	case "recover":
		childRecover(*base, *logp, *kill, *seed, *ntags)
		return
	case "second":
		childSecondLife(*base, *seed, *ntags)
		return
	case "bulkrun":
		childBulkRun(*base, *logp, *kill, *ntags)
		return
	case "bulkcheck":
		childBulkCheck(*base, *ntags)
		return
	}
	self, _ := os.Executable()
	f, err := os.Open(*in)
	if err != nil {
		fmt.Fprintln(os.Stderr, err)
		os.Exit(2)
	}
	defer f.Close()
	sc := bufio.NewScanner(f)
	sc.Buffer(make([]byte, 1<<20), 1<<26)
	w := bufio.NewWriter(os.Stdout)
	defer w.Flush()
	enc := json.NewEncoder(w)
	n := 0
	for line := 0; sc.Scan(); line++ {
		if line < *from {
			continue
		}
		if *count >= 0 && n >= *count {
			break
		}
		n++
		r := &runner{self: self, seed: *seed + int64(line), base: *base}
		var bulk []bulkScenario
		if json.Unmarshal(sc.Bytes(), &bulk) == nil && len(bulk) == 1 && bulk[0].Bulk == "commitcrash" {
			enc.Encode(r.judgeBulk(line, bulk[0].N))
			w.Flush()
			continue
		}
		var ops []wop
		if err := json.Unmarshal(sc.Bytes(), &ops); err != nil {
			enc.Encode(result{Id: line, Status: "error", Error: "parse: " + err.Error()})
			continue
		}
		enc.Encode(r.judge(line, ops, *points, *double))
		w.Flush()
	}
}
