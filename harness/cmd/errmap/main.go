// Command errmap replays the error values enumerated by TLC from ErrMap.tla through the real
// adapter (server side Error, client side ClientError, via pkg/verif) in several wrapping shapes
// and checks with errors.Is which exported sentinel comes out on the client.
package main

import (
	"bufio"
	"context"
	"encoding/json"
	"errors"
	"flag"
	"fmt"
	"os"
	"sort"

	"github.com/glebziz/fs_db"
	"github.com/glebziz/fs_db/pkg/external"
	"github.com/glebziz/fs_db/pkg/verif"

	"fsdbverif/drv"
)

type entry struct {
	Err    []string `json:"err"`
	Code   string   `json:"code"`
	Detail string   `json:"detail"`
	Client string   `json:"client"`
}

type mismatch struct {
	Step   int    `json:"step"`
	Kind   string `json:"kind"`
	Detail string `json:"detail"`
}

type result struct {
	Id       int       `json:"id"`
	Mode     string    `json:"mode"`
	Status   string    `json:"status"`
	Owner    string    `json:"owner,omitempty"`
	Mismatch *mismatch `json:"mismatch,omitempty"`
	Drift    int       `json:"drift"`
	Error    string    `json:"error,omitempty"`
}

var sentinels = map[string]error{
	"NoFreeSpace": fs_db.ErrNoFreeSpace, "NotFound": fs_db.ErrNotFound, "EmptyKey": fs_db.ErrEmptyKey,
	"HeaderNotFound": fs_db.ErrHeaderNotFound, "TxNotFound": fs_db.ErrTxNotFound,
	"TxAlreadyExists": fs_db.ErrTxAlreadyExists, "TxSerialization": fs_db.ErrTxSerialization, "Unknown": fs_db.ErrUnknown,
}

func classes(err error) []string {
	var cs []string
	for n, s := range sentinels {
		if errors.Is(err, s) {
			cs = append(cs, n)
		}
	}
	sort.Strings(cs)
	return cs
}

func judge(id int, e entry) result {
	res := result{Id: id, Mode: "errmap", Status: "ok"}
	var parts []error
	for _, n := range e.Err {
		parts = append(parts, sentinels[n])
	}
	var shapes []error
	switch len(parts) {
	case 0:
		shapes = []error{errors.New("some foreign error"), fmt.Errorf("wrapped: %w", errors.New("foreign"))}
	case 1:
		shapes = []error{parts[0], fmt.Errorf("store usecase set: %w", parts[0]),
			fmt.Errorf("a: %w", fmt.Errorf("b: %w", fmt.Errorf("c: %w", parts[0]))),
			errors.Join(errors.New("foreign"), parts[0])}
	default:
		shapes = []error{errors.Join(parts[0], parts[1]), fmt.Errorf("x: %w", errors.Join(parts[1], parts[0]))}
	}
	if len(e.Err) == 1 && e.Err[0] == "HeaderNotFound" {
		// the one class the package's own client cannot provoke: a foreign client that sends a chunk first
		if mm := headerless(); mm != nil {
			res.Status, res.Owner, res.Mismatch = "violation", "C11", mm
			return res
		}
	}
	for i, sh := range shapes {
		got := classes(verif.ClientError(verif.ServerError(sh)))
		ok := false
		switch len(parts) {
		case 0:
			ok = len(got) == 1 && got[0] == "Unknown"
		case 1:
			ok = len(got) == 1 && got[0] == e.Err[0]
		default:
			ok = len(got) == 1 && (got[0] == e.Err[0] || got[0] == e.Err[1])
		}
		if !ok {
			res.Status, res.Owner = "violation", "C11"
			res.Mismatch = &mismatch{Step: i, Kind: "class", Detail: fmt.Sprintf("server error %q (sentinels %v) arrives on the client as %v", sh.Error(), e.Err, got)}
			return res
		}
		if len(got) == 1 && got[0] != e.Client {
			res.Drift++
		}
	}
	return res
}

// headerless uploads without a header to a real server, with several first chunks, and checks the class and that nothing was stored.
func headerless() *mismatch {
	dir, err := os.MkdirTemp("/dev/shm", "hl")
	if err != nil {
		return nil
	}
	defer os.RemoveAll(dir)
	srv, err := verif.StartServer(drv.NewConfig(dir, 1))
	if err != nil {
		return nil
	}
	defer srv.Stop()
	ctx := context.Background()
	for i, n := range []int{0, 5, 2048, 3000} {
		err := verif.SetFileWithoutHeader(ctx, srv.Addr, make([]byte, n))
		if got := classes(err); len(got) != 1 || got[0] != "HeaderNotFound" {
			return &mismatch{Step: i, Kind: "class", Detail: fmt.Sprintf("an upload whose first message is a chunk of %d bytes instead of the header: the client sees %v (%v), want HeaderNotFound", n, got, err)}
		}
	}
	db, err := external.Open(ctx, srv.Addr)
	if err != nil {
		return nil
	}
	if ks, err := db.GetKeys(ctx); err != nil || len(ks) != 0 {
		return &mismatch{Kind: "trace", Detail: fmt.Sprintf("refused uploads left keys behind: %q %v", ks, err)}
	}
	return nil
}

func main() {
	in := flag.String("in", "", "error values emitted by ErrMap.tla")
	from := flag.Int("from", 0, "first line")
	count := flag.Int("count", -1, "number of lines")
	flag.Int64("seed", 1, "ignored")
	flag.String("mode", "", "ignored")
	flag.Bool("fs", true, "ignored")
	flag.Parse()
	drv.Quiet()
	f, err := os.Open(*in)
	if err != nil {
		fmt.Fprintln(os.Stderr, err)
		os.Exit(2)
	}
	defer f.Close()
	sc := bufio.NewScanner(f)
	w := bufio.NewWriter(os.Stdout)
	defer w.Flush()
	enc := json.NewEncoder(w)
	n := 0
	for line := 0; sc.Scan(); line++ {
		if line < *from {
			continue
		}
		if *count >= 0 && n >= *count {
			break
		}
		n++
		var es []entry
		if err := json.Unmarshal(sc.Bytes(), &es); err != nil || len(es) != 1 {
			enc.Encode(result{Id: line, Status: "error", Error: fmt.Sprint("parse: ", err)})
			continue
		}
		enc.Encode(judge(line, es[0]))
	}
}
