// Command session replays behaviours emitted by TLC from the L1 specification (FsDb.tla)
// against the real database and reports, per behaviour, whether the real code returned what
// the promise (L0) says, which property owns the first disagreement, and how often the real
// code left the modelled mechanism (drift).
//
// Input: one JSON array of steps per line (ToJson(hist) of FsDb.tla).
// Output: one JSON object per behaviour on stdout, and a final summary object.
package main

import (
	"bufio"
	"context"
	"encoding/json"
	"errors"
	"flag"
	"fmt"
	"io"
	"os"
	"sort"
	"strings"
	"sync/atomic"
	"time"

	"github.com/glebziz/fs_db"

	"fsdbverif/drv"
)

type obs struct {
	K string `json:"k"`
	T int    `json:"t"`
	V int    `json:"v"`
	P int    `json:"p"`
}

type args struct {
	T int    `json:"t"`
	K string `json:"k"`
	C int    `json:"c"`
	L string `json:"l"`
	H int    `json:"h"` // wclose: id of the writer handle (the c of its wopen)
}

type step struct {
	Op   string   `json:"op"`
	A    args     `json:"a"`
	Res  string   `json:"res"`
	Pres string   `json:"pres"`
	Obs  []obs    `json:"obs"`
	Nf   int      `json:"nf"`
	Nfr  int      `json:"nfr"`
	Ncr  int      `json:"ncr"`
	Q    bool     `json:"q"`
	Dev  []string `json:"dev"`
}

type mismatch struct {
	Step   int    `json:"step"`
	Kind   string `json:"kind"` // res | obs | keys | files | sorted | dead
	Reader int    `json:"reader"`
	Detail string `json:"detail"`
}

type result struct {
	Id       int       `json:"id"`
	Mode     string    `json:"mode"`
	Status   string    `json:"status"` // ok | violation | known | error
	Owner    string    `json:"owner,omitempty"`
	Mismatch *mismatch `json:"mismatch,omitempty"`
	Known    []string  `json:"known,omitempty"`
	Drift    int       `json:"drift"`
	Steps    int       `json:"steps"`
	Error    string    `json:"error,omitempty"`
	Ablated  string    `json:"ablated,omitempty"`
}

var (
	lateOps = map[string]bool{"lset": true, "ldel": true, "lget": true, "lkeys": true, "lcommit": true, "lrollback": true}
)

type runner struct {
	at       atomic.Int64 // the step being executed (read by the watchdog)
	hung     bool         // an execution never came back: this process must not be reused
	m        *drv.Mapping
	mode     string
	base     string
	checkFS  bool
	variantN int
}

type outcome struct {
	mm    *mismatch
	known []string
	drift int
	err   error
}

// run executes the steps for which skip is false and stops at the first disagreement with the promise.
func (r *runner) run(steps []step, skip func(s step) bool, stopAfter int) (out outcome) {
	bg := context.Background()
	dir, err := os.MkdirTemp(r.base, "s")
	if err != nil {
		out.err = err
		return
	}
	defer os.RemoveAll(dir)
	cfg := drv.NewConfig(dir, 1)
	var d drv.Driver
	if r.mode == "external" {
		d, err = drv.OpenExternal(cfg)
	} else {
		d, err = drv.OpenInline(cfg)
	}
	if err != nil {
		out.err = err
		return
	}
	defer func() {
		if d != nil {
			d.Close()
		}
	}()

	txs := map[int]fs_db.Tx{}
	dead := map[int]fs_db.Tx{}
	store := func(t int) fs_db.Store {
		if t == 0 {
			return d.DB()
		}
		if tx, ok := txs[t]; ok {
			return tx
		}
		return dead[t]
	}
	knownSet := map[string]bool{}
	variant := 0
	// the reader held open across steps (ropen ... rfinish)
	var (
		openR       io.ReadCloser
		openRHead   []byte
		openRStep   int
		openRCancel = func() {}
	)
	defer func() {
		if openR != nil {
			openR.Close()
		}
	}()
	// the files held open for writing (wopen ... wclose), by handle id
	type openW struct {
		f      fs_db.File
		cancel func()
	}
	openWs := map[int]openW{}
	defer func() {
		for _, w := range openWs {
			w.cancel() // an abandoned upload: the caller gives up its context
		}
	}()

	for i, s := range steps {
		if stopAfter >= 0 && i > stopAfter {
			break
		}
		if skip != nil && skip(s) {
			continue
		}
		variant++
		r.at.Store(int64(i))
		var opErr error
		got := ""
		// callers hand every call its own context and give it up when the call has returned (a request handler
		// does); what the call started in the background must not depend on it. One step in four keeps it alive.
		ctx, stop := context.WithCancel(bg)
		defer stop()
		cancel := stop
		if (int(r.m.Seed)+i)%4 == 0 {
			cancel = func() {}
		}
		switch s.Op {
		case "set", "lset":
			opErr = drv.Write(ctx, store(s.A.T), r.m.Key(s.A.K), r.m.Content(s.A.C), int(r.m.Seed)+s.A.C+i*3)
		case "del", "ldel":
			opErr = store(s.A.T).Delete(ctx, r.m.Key(s.A.K))
		case "emptyset":
			opErr = drv.Write(ctx, store(s.A.T), "", []byte("x"), int(r.m.Seed)+i)
		case "emptydel":
			opErr = store(s.A.T).Delete(ctx, "")
		case "begin":
			var tx fs_db.Tx
			if s.A.L == "RC" && (int(r.m.Seed)+i)%2 == 0 {
				tx, opErr = d.DB().Begin(ctx) // default level
			} else {
				lvl := fs_db.IsoLevelReadUncommitted
				switch s.A.L {
				case "RC":
					lvl = fs_db.IsoLevelReadCommitted
				case "RR":
					lvl = fs_db.IsoLevelRepeatableRead
				case "SER":
					lvl = fs_db.IsoLevelSerializable
				}
				tx, opErr = d.DB().Begin(ctx, lvl)
			}
			if opErr == nil {
				txs[s.A.T] = tx
			}
		case "commit", "lcommit":
			if tx, ok := txs[s.A.T]; ok {
				opErr = tx.Commit(ctx)
				dead[s.A.T] = tx
				delete(txs, s.A.T)
			} else {
				opErr = dead[s.A.T].Commit(ctx)
			}
		case "rollback", "lrollback":
			if tx, ok := txs[s.A.T]; ok {
				opErr = tx.Rollback(ctx)
				dead[s.A.T] = tx
				delete(txs, s.A.T)
			} else {
				opErr = dead[s.A.T].Rollback(ctx)
			}
		case "lget":
			_, opErr = drv.Read(ctx, store(s.A.T), r.m.Key(s.A.K), i)
		case "lkeys":
			_, opErr = store(s.A.T).GetKeys(ctx)
		case "ropen":
			// the read begins: the reader is obtained and a first part is consumed (nothing, one byte, or a third)
			want := r.m.Content(s.A.C)
			openR, opErr = store(s.A.T).GetReader(ctx, r.m.Key(s.A.K))
			openRHead, openRStep = nil, i
			openRCancel, cancel = cancel, func() {} // this context lives as long as the reader
			if opErr == nil {
				n := []int{0, 1, len(want) / 3}[(int(r.m.Seed)+i)%3]
				if n > len(want) {
					n = len(want)
				}
				openRHead = make([]byte, n)
				if _, err := io.ReadFull(openR, openRHead); err != nil {
					out.mm = &mismatch{Step: i, Kind: "reader", Detail: fmt.Sprintf("ropen: the first %d bytes of %s cannot be read: %v", n, tagName(s.A.C), err)}
				}
			}
		case "rfinish":
			// ... and ends, whatever happened in between: the content it began with, complete
			if openR == nil {
				continue // the ropen step was left out by an ablation run
			}
			want := r.m.Content(s.A.C)
			rest, err := io.ReadAll(openR)
			openR.Close()
			openR = nil
			openRCancel()
			all := append(append([]byte{}, openRHead...), rest...)
			if err != nil || string(all) != string(want) {
				between := []string{}
				for j := openRStep + 1; j < i; j++ {
					between = append(between, steps[j].Op)
				}
				out.mm = &mismatch{Step: i, Kind: "reader", Detail: fmt.Sprintf("a reader opened on %s (%d bytes, %d read at once) and finished after %v returned %s, err %v",
					tagName(s.A.C), len(want), len(openRHead), between, describe(r.m, all, "ok", steps), err)}
			}
		case "wopen":
			// Create: the file exists for nobody until it is closed; its context lives as long as the handle
			var f fs_db.File
			f, opErr = store(s.A.T).Create(ctx, r.m.Key(s.A.K))
			if opErr == nil {
				openWs[s.A.C] = openW{f: f, cancel: cancel}
				cancel = func() {}
			}
		case "wclose":
			w, ok := openWs[s.A.H]
			if !ok {
				continue // its wopen was left out
			}
			delete(openWs, s.A.H)
			b := r.m.Content(s.A.C)
			// the content in two writes (the second possibly empty), then Close
			_, w1 := w.f.Write(b[:len(b)/2])
			_, w2 := w.f.Write(b[len(b)/2:])
			opErr = errors.Join(w1, w2, w.f.Close())
			w.cancel()
		case "gc":
			opErr = d.GC()
		case "reopen":
			opErr = d.Reopen()
			for t, tx := range txs {
				dead[t] = tx
			}
			txs = map[int]fs_db.Tx{}
		default:
			out.err = fmt.Errorf("unknown op %q", s.Op)
			return
		}
		cancel()
		ctx = bg
		if out.mm != nil {
			break
		}
		got = drv.Class(opErr)
		if got != s.Pres {
			if got == s.Res && len(s.Dev) > 0 {
				for _, dv := range s.Dev {
					knownSet[dv] = true
				}
			} else {
				out.mm = &mismatch{Step: i, Kind: "res", Detail: fmt.Sprintf("%s returned %s, promise %s (mechanism %s)", s.Op, got, s.Pres, s.Res)}
				break
			}
		} else if got != s.Res {
			out.drift++
		}

		idle := drv.WaitIdle(5 * time.Second)

		// the read matrix: every open reader, every key, then GetKeys per reader
		sort.Slice(s.Obs, func(a, b int) bool {
			if s.Obs[a].T != s.Obs[b].T {
				return s.Obs[a].T < s.Obs[b].T
			}
			return s.Obs[a].K < s.Obs[b].K
		})
		wantKeys := map[int][]string{}
		readers := []int{}
		for _, o := range s.Obs {
			if _, ok := wantKeys[o.T]; !ok {
				wantKeys[o.T] = []string{}
				readers = append(readers, o.T)
			}
			b, err := drv.Read(ctx, store(o.T), r.m.Key(o.K), variant+o.T)
			cls := drv.Class(err)
			matches := func(tag int) bool {
				if tag == 0 {
					return cls == "notfound"
				}
				return cls == "ok" && string(b) == string(r.m.Content(tag))
			}
			effective := o.P
			if !matches(o.P) {
				if len(s.Dev) > 0 && o.V != o.P && matches(o.V) {
					for _, dv := range s.Dev {
						knownSet[dv] = true
					}
					effective = o.V
				} else {
					out.mm = &mismatch{Step: i, Kind: "obs", Reader: o.T,
						Detail: fmt.Sprintf("after %s: reader %d key %s read %s, promise %s (mechanism %s)", s.Op, o.T, o.K, describe(r.m, b, cls, steps), tagName(o.P), tagName(o.V))}
					break
				}
			} else if !matches(o.V) {
				out.drift++
			}
			if effective != 0 {
				wantKeys[o.T] = append(wantKeys[o.T], r.m.Key(o.K))
			}
		}
		if out.mm != nil {
			break
		}
		for _, t := range readers {
			keys, err := store(t).GetKeys(ctx)
			want := wantKeys[t]
			sort.Strings(want)
			if err != nil {
				out.mm = &mismatch{Step: i, Kind: "keys", Reader: t, Detail: fmt.Sprintf("after %s: reader %d GetKeys failed: %v", s.Op, t, err)}
				break
			}
			if !sort.StringsAreSorted(keys) {
				out.mm = &mismatch{Step: i, Kind: "sorted", Reader: t, Detail: fmt.Sprintf("after %s: reader %d GetKeys not sorted: %q", s.Op, t, keys)}
				break
			}
			if strings.Join(keys, "\x01") != strings.Join(want, "\x01") {
				out.mm = &mismatch{Step: i, Kind: "keys", Reader: t, Detail: fmt.Sprintf("after %s: reader %d GetKeys %q, promise %q", s.Op, t, keys, want)}
				break
			}
		}
		if out.mm != nil {
			break
		}

		// the storage roots (inline and external share the layout)
		if r.checkFS && idle {
			tree, err := drv.Walk(d.Roots())
			if err != nil {
				out.err = err
				return
			}
			if len(tree.Stray) > 0 {
				out.mm = &mismatch{Step: i, Kind: "files", Detail: fmt.Sprintf("after %s: entries outside root/<dir>/<file>: %q", s.Op, tree.Stray)}
				break
			}
			if s.Q {
				// quiescent: exactly one content file per readable key
				if tree.NFiles != len(wantKeys[0]) {
					out.mm = &mismatch{Step: i, Kind: "files", Detail: fmt.Sprintf("after %s at quiescence: %d content files for %d readable keys", s.Op, tree.NFiles, len(wantKeys[0]))}
					break
				}
			} else if tree.NFiles != s.Nf && len(openWs) == 0 { // (when the file of an upload in progress appears is not specified)
				if s.Op == "gc" && len(s.Dev) == 0 {
					// C18: a collection removes exactly the versions that have a successor not newer than the horizon
					// (the oldest open transaction's begin, or now): one content file per version it must keep
					out.mm = &mismatch{Step: i, Kind: "collect", Detail: fmt.Sprintf("after gc: %d content files on disk, the collect rule leaves %d", tree.NFiles, s.Nf)}
					break
				}
				out.drift++
			}
		}
	}
	for k := range knownSet {
		out.known = append(out.known, k)
	}
	sort.Strings(out.known)
	return
}

// guarded runs the steps under a watchdog: an operation of the real code that does not return within a minute is a
// hang (every operation of these behaviours takes milliseconds). The stuck goroutine is left behind.
func (r *runner) guarded(steps []step, skip func(s step) bool, stopAfter int) outcome {
	ch := make(chan outcome, 1)
	r.at.Store(-1)
	go func() { ch <- r.run(steps, skip, stopAfter) }()
	select {
	case o := <-ch:
		return o
	case <-time.After(60 * time.Second):
		r.hung = true
		i := int(r.at.Load())
		op := "open"
		if i >= 0 && i < len(steps) {
			op = fmt.Sprintf("%s %+v", steps[i].Op, steps[i].A)
		} else {
			i = 0
		}
		return outcome{mm: &mismatch{Step: i, Kind: "hang", Detail: fmt.Sprintf("step %d (%s) has not returned after 60 s", i, op)}}
	}
}

func tagName(t int) string {
	if t == 0 {
		return "NotFound"
	}
	return fmt.Sprintf("content#%d", t)
}

func describe(m *drv.Mapping, b []byte, cls string, steps []step) string {
	if cls != "ok" {
		return cls
	}
	var cands []int
	for _, s := range steps {
		if s.A.C != 0 {
			cands = append(cands, s.A.C)
		}
	}
	if t := m.TagOf(b, cands); t >= 0 {
		return tagName(t)
	}
	return fmt.Sprintf("unknown content of %d bytes", len(b))
}

// owner decides which property the first disagreement belongs to (DESIGN.md section 5).
func owner(steps []step, mm *mismatch) string {
	if mm.Kind == "files" {
		if steps[mm.Step].Q {
			return "C14"
		}
		return "C17"
	}
	if mm.Kind == "collect" {
		return "C18"
	}
	if mm.Kind != "hang" && mm.Kind != "files" && mm.Step < len(steps) && (steps[mm.Step].Op == "wopen" || steps[mm.Step].Op == "wclose") {
		return "C12" // a created file: Close returns, and what Close acknowledged is what is read
	}
	if mm.Kind == "hang" {
		// "no operation deadlocks" (C06), unless something more specific explains it (late operations are tried by ablation)
		for i := 0; i <= mm.Step && i < len(steps); i++ {
			if lateOps[steps[i].Op] {
				return "C13"
			}
		}
		return "C06"
	}
	if mm.Kind == "reader" {
		// what came between opening and finishing decides: the collector (C09), the end of a transaction (C03), else C01
		own := "C01"
		for i := mm.Step - 1; i >= 0 && steps[i].Op != "ropen"; i-- {
			switch steps[i].Op {
			case "gc":
				return "C09"
			case "commit", "rollback":
				own = "C03"
			}
		}
		return own
	}
	begun := false
	for i := 0; i <= mm.Step && i < len(steps); i++ {
		if steps[i].Op == "reopen" {
			return "C05"
		}
		if steps[i].Op == "begin" {
			begun = true
		}
	}
	s := steps[mm.Step]
	switch {
	case lateOps[s.Op]:
		return "C13"
	case s.Op == "gc":
		return "C09"
	case s.Op == "commit" || s.Op == "rollback":
		if mm.Kind == "res" || mm.Reader == 0 {
			return "C03"
		}
		return "C02"
	case !begun:
		return "C01"
	default:
		return "C02"
	}
}

func (r *runner) judge(id int, steps []step) result {
	res := result{Id: id, Mode: r.mode, Steps: len(steps)}
	out := r.guarded(steps, nil, -1)
	res.Drift = out.drift
	res.Known = out.known
	if out.err != nil {
		res.Status, res.Error = "error", out.err.Error()
		return res
	}
	if out.mm == nil {
		res.Status = "ok"
		if len(out.known) > 0 {
			res.Status = "known"
		}
		return res
	}
	res.Status = "violation"
	res.Mismatch = out.mm
	// blame by ablation: the collector and late operations are the identity in the promise, so
	// the expected results of the remaining steps stay valid when they are left out.
	hasGC, hasLate := false, false
	for i := 0; i <= out.mm.Step; i++ {
		hasGC = hasGC || steps[i].Op == "gc"
		hasLate = hasLate || lateOps[steps[i].Op]
	}
	if out.mm.Kind == "collect" {
		res.Owner = "C18"
		return res
	}
	if hasGC && out.mm.Kind != "files" {
		o2 := r.guarded(steps, func(s step) bool { return s.Op == "gc" }, out.mm.Step)
		if o2.err == nil && o2.mm == nil {
			res.Owner, res.Ablated = "C09", "gc"
			return res
		}
	}
	if hasLate && out.mm.Kind != "files" {
		o3 := r.guarded(steps, func(s step) bool { return s.Op == "gc" || lateOps[s.Op] }, out.mm.Step)
		if o3.err == nil && o3.mm == nil {
			res.Owner, res.Ablated = "C13", "late"
			return res
		}
	}
	res.Owner = owner(steps, out.mm)
	return res
}

func main() {
	var (
		in      = flag.String("in", "", "file with one behaviour (JSON array of steps) per line")
		mode    = flag.String("mode", "inline", "inline | external | both")
		seed    = flag.Int64("seed", 1, "seed of the key/content/variant mapping")
		base    = flag.String("base", "/dev/shm", "directory for scratch databases")
		checkFS = flag.Bool("fs", true, "walk the storage roots after every step")
		from    = flag.Int("from", 0, "first line (0-based) to replay")
		count   = flag.Int("count", -1, "number of lines to replay (-1: all)")
	)
	flag.Parse()
	drv.InstallCounters()

	f, err := os.Open(*in)
	if err != nil {
		fmt.Fprintln(os.Stderr, err)
		os.Exit(2)
	}
	defer f.Close()
	sc := bufio.NewScanner(f)
	sc.Buffer(make([]byte, 1<<20), 1<<28)
	w := bufio.NewWriter(os.Stdout)
	defer w.Flush()
	enc := json.NewEncoder(w)

	n := 0
	for line := 0; sc.Scan(); line++ {
		if line < *from {
			continue
		}
		if *count >= 0 && n >= *count {
			break
		}
		n++
		var steps []step
		if err := json.Unmarshal(sc.Bytes(), &steps); err != nil {
			enc.Encode(result{Id: line, Status: "error", Error: "parse: " + err.Error()})
			continue
		}
		modes := []string{*mode}
		if *mode == "both" {
			modes = []string{"inline", "external"}
		}
		var inlineRes *result
		for _, md := range modes {
			r := &runner{m: drv.NewMapping(*seed + int64(line)), mode: md, base: *base, checkFS: *checkFS}
			res := r.judge(line, steps)
			if md == "inline" {
				inlineRes = &res
			}
			if md == "external" && res.Status == "violation" && inlineRes != nil && inlineRes.Status != "violation" {
				res.Owner = "C11"
			}
			enc.Encode(res)
			if r.hung {
				// blocked goroutines of the real code are left behind: ask for a fresh process for the rest
				w.Flush()
				os.Exit(3)
			}
		}
	}
	w.Flush()
}
