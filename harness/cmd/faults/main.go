// Command faults replays fault scenarios emitted by TLC from SetRetry.tla (no space left on a
// storage root, fully or after a partial write, on any subset of the roots) and Upload.tla
// (source reader error, context cancellation, broken connection at a chosen position of an
// upload) against the real code, and checks what C10 promises: a write that returned an error
// left the key as it was and nobody sees partial content; a write that returned nil stored the
// source exactly; a write continues on another root that reports more free space.
package main

import (
	"bufio"
	"bytes"
	"context"
	"encoding/json"
	"errors"
	"flag"
	"fmt"
	"io"
	"net"
	"os"
	"path/filepath"
	"strings"
	"sync"
	"time"

	"github.com/glebziz/fs_db"
	"github.com/glebziz/fs_db/config"
	"github.com/glebziz/fs_db/pkg/external"
	"github.com/glebziz/fs_db/pkg/inline"
	"github.com/glebziz/fs_db/pkg/verif"

	"fsdbverif/drv"
)

type faultPlan struct {
	At      int  `json:"at"`
	Partial bool `json:"partial"`
}

type scenario struct {
	// SetRetry.tla
	Free    []int       `json:"free"`
	Fault   []faultPlan `json:"fault"`
	Order   []int       `json:"order"`
	Tried   []int       `json:"tried"`
	Result  string      `json:"result"`
	Exact   bool        `json:"exact"`
	NChunks int         `json:"nchunks"`
	// Upload.tla
	Len      int    `json:"len"`
	Kind     string `json:"kind"`
	P        int    `json:"p"`
	Client   string `json:"client"`
	Key      string `json:"key"`
	Received int    `json:"received"`
	Class    string `json:"class"`
	// Download.tla
	Api  string `json:"api"`
	Unit int    `json:"unit"`
}

type mismatch struct {
	Step   int    `json:"step"`
	Kind   string `json:"kind"`
	Detail string `json:"detail"`
}

type result struct {
	Id       int       `json:"id"`
	Mode     string    `json:"mode"`
	Status   string    `json:"status"`
	Owner    string    `json:"owner,omitempty"`
	Mismatch *mismatch `json:"mismatch,omitempty"`
	Drift    int       `json:"drift"`
	Error    string    `json:"error,omitempty"`
}

const chunk = 32 * 1024

func pattern(n int, salt byte) []byte {
	b := make([]byte, n)
	for i := range b {
		b[i] = byte(i*7+i/251) ^ salt
	}
	return b
}

// ---------------------------------------------------------------- no space left (SetRetry.tla)

func runNoSpace(id int, sc scenario, variant int, base string) (res result) {
	res = result{Id: id, Mode: "nospace", Status: "ok"}
	fail := func(kind, d string) result {
		res.Status, res.Owner, res.Mismatch = "violation", "C10", &mismatch{Kind: kind, Detail: d}
		return res
	}
	ctx := context.Background()
	dir, err := os.MkdirTemp(base, "ns")
	if err != nil {
		res.Status, res.Error = "error", err.Error()
		return
	}
	defer os.RemoveAll(dir)
	n := len(sc.Free)
	cfg := drv.NewConfig(dir, n)
	roots := cfg.Storage.RootDirs
	rootOf := func(path string) int {
		for i, r := range roots {
			if strings.HasPrefix(path, r+"/") {
				return i + 1
			}
		}
		return 0
	}
	verif.SetDiskFree(func(root string, real uint64) uint64 {
		for i, r := range roots {
			if filepath.Clean(root) == filepath.Clean(r) {
				return uint64(sc.Free[i]) << 30
			}
		}
		return real
	})
	defer verif.SetDiskFree(nil)
	db, err := inline.Open(ctx, cfg)
	if err != nil {
		res.Status, res.Error = "error", err.Error()
		return
	}
	defer db.Close()
	old := pattern(100, 0x55)
	if err := db.Set(ctx, "key", old); err != nil {
		res.Status, res.Error = "error", "setup: "+err.Error()
		return
	}
	// the source: NChunks copy-buffer chunks; every second variant ends with a short last chunk
	size := sc.NChunks * chunk
	if variant%2 == 1 {
		size -= chunk / 3
	}
	src := pattern(size, byte(0x80|id))
	var (
		mu     sync.Mutex
		calls  = map[string]int{}
		tried  []int
		active = true
	)
	verif.SetWriteFault(func(path string, p []byte) (int, error, bool) {
		mu.Lock()
		defer mu.Unlock()
		if !active {
			return 0, nil, false
		}
		r := rootOf(path)
		if r == 0 {
			return 0, nil, false
		}
		if calls[path] == 0 {
			tried = append(tried, r)
		}
		calls[path]++
		f := sc.Fault[r-1]
		if f.At != 0 && calls[path] == f.At {
			if f.Partial && len(p) > 1 {
				return len(p) / 2, verif.ErrNoSpace, true
			}
			return 0, verif.ErrNoSpace, true
		}
		return 0, nil, false
	})
	defer verif.SetWriteFault(nil)
	var wErr error
	path := (variant / 2) % 3
	if os.Getenv("VERIF_FAULTS_BIGCREATE") != "" {
		// C12: a writer that is megabytes ahead of a storing side that fails: Write and Close must still return
		path = 2
		src = append(src, pattern(3<<20+variant%1000, byte(id))...)
	}
	done := make(chan struct{})
	go func() {
		defer close(done)
		switch path {
		case 0:
			wErr = db.SetReader(ctx, "key", bytes.NewReader(src))
		case 1:
			wErr = db.Set(ctx, "key", src)
		default:
			f, err := db.Create(ctx, "key")
			if err != nil {
				wErr = err
			} else {
				var ws []error
				for off := 0; off < len(src); off += 1 << 19 {
					end := min(off+1<<19, len(src))
					if off == 0 {
						end = min(len(src)/2, 1<<19)
					}
					_, wE := f.Write(src[off:end])
					ws = append(ws, wE)
					if off == 0 && end < len(src) && end < 1<<19 {
						_, wE = f.Write(src[end:min(1<<19, len(src))])
						ws = append(ws, wE)
					}
				}
				ws = append(ws, f.Close())
				wErr = errors.Join(ws...)
			}
		}
	}()
	select {
	case <-done:
	case <-time.After(45 * time.Second):
		res.Status, res.Owner = "violation", "C12"
		res.Mismatch = &mismatch{Kind: "hang", Detail: fmt.Sprintf("a write of %d bytes whose storing side ran out of space has not returned after 45 s (roots free ranks %v, faults %v)", len(src), sc.Free, sc.Fault)}
		return res
	}
	mu.Lock()
	active = false
	got := append([]int{}, tried...)
	mu.Unlock()
	after, gErr := db.Get(ctx, "key")
	where := fmt.Sprintf("roots free ranks %v, faults %v, roots tried %v, %d bytes", sc.Free, sc.Fault, got, len(src))
	switch {
	case wErr == nil:
		if gErr != nil || !bytes.Equal(after, src) {
			return fail("content", fmt.Sprintf("the write returned nil but the key reads back %d bytes (%v) instead of the %d source bytes (first difference at %d): %s", len(after), gErr, len(src), firstDiff(after, src), where))
		}
	default:
		if gErr != nil || !bytes.Equal(after, old) {
			return fail("trace", fmt.Sprintf("the write failed (%v) but the key no longer holds its previous value (%d bytes, %v): %s", wErr, len(after), gErr, where))
		}
		if !errors.Is(wErr, fs_db.ErrNoFreeSpace) {
			return fail("class", fmt.Sprintf("the write failed with %v, not with ErrNoFreeSpace: %s", wErr, where))
		}
		// the promise: it continues on a root that reports more free space than those that failed
		for i := range sc.Free {
			if sc.Fault[i].At != 0 {
				continue
			}
			more := true
			for _, t := range got {
				if sc.Free[t-1] >= sc.Free[i] {
					more = false
				}
			}
			if more && len(got) > 0 {
				return fail("continue", fmt.Sprintf("the write failed with no space although root %d has no fault and reports more free space than every root that failed: %s", i+1, where))
			}
		}
	}
	// binding: for the order of roots the code happened to choose, the specification expects the same outcome
	if fmt.Sprint(got) == fmt.Sprint(sc.Tried) {
		if (wErr == nil) != (sc.Result == "ok") {
			res.Drift++
		}
	}
	return res
}

func firstDiff(a, b []byte) int {
	for i := 0; i < len(a) && i < len(b); i++ {
		if a[i] != b[i] {
			return i
		}
	}
	if len(a) != len(b) {
		if len(a) < len(b) {
			return len(a)
		}
		return len(b)
	}
	return -1
}

// ---------------------------------------------------------------- uploads (Upload.tla)

var errSource = errors.New("source reader failed")

type faultyReader struct {
	b      []byte
	pos    int
	at     int
	onHit  func() error // called once when `at` bytes were delivered; its error is returned from Read
	hit    bool
	pieces int
}

func (r *faultyReader) Read(p []byte) (int, error) {
	if r.pos >= r.at && r.onHit != nil && !r.hit {
		r.hit = true
		if err := r.onHit(); err != nil {
			return 0, err
		}
	}
	if r.pos >= len(r.b) {
		return 0, io.EOF
	}
	n := len(p)
	if r.pieces > 0 && n > r.pieces {
		n = r.pieces
	}
	if !r.hit && r.onHit != nil && r.pos+n > r.at {
		n = r.at - r.pos
	}
	if r.pos+n > len(r.b) {
		n = len(r.b) - r.pos
	}
	copy(p, r.b[r.pos:r.pos+n])
	r.pos += n
	return n, nil
}

// proxy forwards TCP connections to the server and can cut them all.
type proxy struct {
	lis   net.Listener
	mu    sync.Mutex
	conns []net.Conn
	// server->client budget: when armed, onLimit is called once `left` more bytes were forwarded
	armed   bool
	left    int
	onLimit func()
}

// arm makes the proxy call f once n more bytes have travelled from the server to the client.
func (p *proxy) arm(n int, f func()) {
	p.mu.Lock()
	p.armed, p.left, p.onLimit = true, n, f
	p.mu.Unlock()
}

// down forwards server->client traffic, honouring the budget.
func (p *proxy) down(c, s net.Conn) {
	buf := make([]byte, 512)
	for {
		n, err := s.Read(buf)
		if n > 0 {
			// the part within the budget is forwarded first, then the fault fires, then the rest follows
			// (on a connection that was cut the rest goes nowhere)
			var fire func()
			first := n
			p.mu.Lock()
			if p.armed {
				if n >= p.left {
					first = p.left
					p.armed = false
					fire = p.onLimit
				}
				p.left -= first
			}
			p.mu.Unlock()
			if first > 0 {
				if _, wErr := c.Write(buf[:first]); wErr != nil {
					break
				}
			}
			if fire != nil {
				fire()
			}
			if first < n {
				if _, wErr := c.Write(buf[first:n]); wErr != nil {
					break
				}
			}
		}
		if err != nil {
			break
		}
	}
	c.Close()
}

func newProxy(target string) (*proxy, error) {
	lis, err := net.Listen("tcp", "127.0.0.1:0")
	if err != nil {
		return nil, err
	}
	p := &proxy{lis: lis}
	go func() {
		for {
			c, err := lis.Accept()
			if err != nil {
				return
			}
			s, err := net.Dial("tcp", target)
			if err != nil {
				c.Close()
				continue
			}
			p.mu.Lock()
			p.conns = append(p.conns, c, s)
			p.mu.Unlock()
			go func() { io.Copy(s, c); s.Close() }()
			go p.down(c, s)
		}
	}()
	return p, nil
}

func (p *proxy) cut() {
	p.mu.Lock()
	defer p.mu.Unlock()
	for _, c := range p.conns {
		c.Close()
	}
	p.conns = nil
}

func (p *proxy) close() { p.lis.Close(); p.cut() }

func runUpload(id int, sc scenario, variant int, base string) (res result) {
	res = result{Id: id, Mode: "upload", Status: "ok"}
	fail := func(kind, d string) result {
		res.Status, res.Owner, res.Mismatch = "violation", "C10", &mismatch{Kind: kind, Detail: d}
		return res
	}
	dir, err := os.MkdirTemp(base, "up")
	if err != nil {
		res.Status, res.Error = "error", err.Error()
		return
	}
	defer os.RemoveAll(dir)
	cfg := drv.NewConfig(dir, 1)
	// one unit of the specification is 1024 bytes (the stream chunk is 2048); offsets probe both sides of a boundary
	off := []int{0, 1, -1}[variant%3]
	size := sc.Len * 1024
	if sc.Len > 0 && variant%2 == 1 {
		size += 7
	}
	reject := strings.HasPrefix(sc.Kind, "reject_")
	if reject && off < 0 {
		off = 0 // the verdict is known to have arrived only once the p-th unit has been handed to the stream
	}
	at := sc.P*1024 + off
	if at < 0 {
		at = 0
	}
	if at > size {
		at = size
	}
	src := pattern(size, byte(0x40|id))
	old := pattern(64, 0x33)
	external_ := (variant/3)%3 != 2 // two thirds through the gRPC client, one third inline
	if sc.Kind == "cut" || strings.HasPrefix(sc.Kind, "reject_") {
		external_ = true
	}
	ctx := context.Background()
	var (
		db     fs_db.DB
		reader fs_db.DB // an independent client that reads the key afterwards
		stop   func()
		px     *proxy
	)
	if external_ {
		srv, err := verif.StartServer(cfg)
		if err != nil {
			res.Status, res.Error = "error", err.Error()
			return
		}
		addr := srv.Addr
		if sc.Kind == "cut" {
			px, err = newProxy(srv.Addr)
			if err != nil {
				srv.Stop()
				res.Status, res.Error = "error", err.Error()
				return
			}
			addr = px.lis.Addr().String()
		}
		db, _ = external.Open(ctx, addr)
		reader, _ = external.Open(ctx, srv.Addr)
		stop = func() {
			if px != nil {
				px.close()
			}
			srv.Stop()
		}
	} else {
		idb, err := inline.Open(ctx, cfg)
		if err != nil {
			res.Status, res.Error = "error", err.Error()
			return
		}
		db, reader = idb, idb
		stop = func() { idb.Close() }
	}
	stopped := false
	stopOnce := func() {
		if !stopped {
			stopped = true
			stop()
		}
	}
	defer stopOnce()
	if err := reader.Set(ctx, "key", old); err != nil {
		res.Status, res.Error = "error", "setup: "+err.Error()
		return
	}
	wctx, cancel := context.WithCancel(ctx)
	defer cancel()
	r := &faultyReader{b: src, at: at, pieces: []int{0, 1000, 4096}[(variant/9)%3]}
	switch sc.Kind {
	case "readerr":
		r.onHit = func() error { return errSource }
	case "cancel":
		// the caller's context is cancelled and its source stops with the context's error (a cancellation that races
		// with the final half-close of an upload whose bytes were all sent cannot be decided by anybody: two generals)
		r.onHit = func() error { cancel(); return context.Canceled }
		if !external_ && (variant/5)%2 == 0 {
			// through the inline client the source may also go on after the cancellation (nothing there reads the context
			// while it copies): whatever the call then answers, the key and the reopened database must agree with it
			r.onHit = func() error { cancel(); return nil }
		}
	case "cut":
		r.onHit = func() error { px.cut(); return nil }
	case "reject_emptykey", "reject_nospace":
		// the server has refused the upload by now; give its verdict the time to reach the client
		r.onHit = func() error { time.Sleep(100 * time.Millisecond); return nil }
	}
	upKey := "key"
	if sc.Kind == "reject_emptykey" {
		upKey = ""
	}
	if sc.Kind == "reject_nospace" {
		roots := cfg.Storage.RootDirs
		verif.SetWriteFault(func(path string, p []byte) (int, error, bool) {
			for _, r := range roots {
				if strings.HasPrefix(path, r+"/") {
					return 0, verif.ErrNoSpace, true
				}
			}
			return 0, nil, false
		})
		defer verif.SetWriteFault(nil)
	}
	var wErr error
	useCreate := (variant/27)%2 == 1
	done := make(chan struct{})
	go func() {
		defer close(done)
		if useCreate {
			f, err := db.Create(wctx, upKey)
			if err != nil {
				wErr = err
			} else {
				_, cpErr := io.Copy(f, r)
				if cpErr != nil {
					wErr = cpErr
					cancel() // the caller gives up: it does not Close a file whose content it could not produce
				} else {
					wErr = f.Close()
				}
			}
		} else {
			wErr = db.SetReader(wctx, upKey, r)
		}
	}()
	select {
	case <-done:
	case <-time.After(45 * time.Second):
		// the caller's context is still alive: the call waits for something that will never come
		cancel()
		res.Status, res.Owner = "violation", "C10"
		res.Mismatch = &mismatch{Kind: "hang", Detail: fmt.Sprintf("the upload (%s of %d bytes, %s after %d bytes, gRPC client: %v) has not returned after 45 s", map[bool]string{true: "Create+Write*+Close", false: "SetReader"}[useCreate], size, sc.Kind, at, external_)}
		return res
	}
	if sc.Kind == "reject_nospace" {
		verif.SetWriteFault(nil)
	}
	cancel() // the call returned: whatever context it used is over
	where := fmt.Sprintf("%s of %d bytes, %s after %d bytes, %s client, %s", map[bool]string{true: "Create+Write*+Close", false: "SetReader"}[useCreate],
		size, sc.Kind, at, map[bool]string{true: "gRPC", false: "inline"}[external_], errStr(wErr))
	if reject {
		// C11: the caller is told why the server refused, whatever the moment the refusal reached the client
		want, name := fs_db.ErrEmptyKey, "ErrEmptyKey"
		if sc.Kind == "reject_nospace" {
			want, name = fs_db.ErrNoFreeSpace, "ErrNoFreeSpace"
		}
		if !errors.Is(wErr, want) {
			res.Status, res.Owner = "violation", "C11"
			res.Mismatch = &mismatch{Kind: "class", Detail: fmt.Sprintf("the server refused the upload with %s but the caller cannot tell: %s", name, where)}
			return res
		}
	}
	// "no reader ever sees partial content": watch the key while the server winds the upload down
	deadline := time.Now().Add(300 * time.Millisecond)
	for {
		got, gErr := reader.Get(ctx, "key")
		switch {
		case gErr != nil:
			return fail("read", fmt.Sprintf("the key cannot be read after the upload: %v: %s", gErr, where))
		case bytes.Equal(got, old):
			if wErr == nil {
				if time.Now().After(deadline) {
					return fail("lost", fmt.Sprintf("the upload returned nil but the key still holds its previous value: %s", where))
				}
			}
		case bytes.Equal(got, src):
			if wErr != nil {
				return fail("trace", fmt.Sprintf("the upload failed but the key now holds the uploaded content: %s", where))
			}
		default:
			return fail("partial", fmt.Sprintf("the key holds %d bytes that are neither its previous value nor the source (a prefix of the source: %v): %s",
				len(got), len(got) <= len(src) && bytes.Equal(got, src[:len(got)]), where))
		}
		if wErr == nil && bytes.Equal(got, src) {
			break
		}
		if time.Now().After(deadline) {
			break
		}
		time.Sleep(10 * time.Millisecond)
	}
	// binding: what the specification says the client got
	if (wErr == nil) != (sc.Client == "ok") {
		res.Drift++
	}
	// "leaves no trace" also after Close and Open: what a failed write left in the store's records must not come to life
	if sc.Kind != "reject_emptykey" {
		stopOnce()
		if rdb, oErr := inline.Open(ctx, cfg); oErr != nil {
			return fail("reopen", fmt.Sprintf("the database does not open again after the upload: %v: %s", oErr, where))
		} else {
			got, gErr := rdb.Get(ctx, "key")
			rdb.Close()
			want, which := old, "its previous value"
			if wErr == nil {
				want, which = src, "the uploaded content"
			}
			if gErr != nil || !bytes.Equal(got, want) {
				return fail("reopen", fmt.Sprintf("after Close and Open the key holds %d bytes (%v) instead of %s: %s", len(got), gErr, which, where))
			}
		}
	}
	return res
}

// ---------------------------------------------------------------- reads over a failing transport (Download.tla)

func runDownload(id int, sc scenario, variant int, base string) (res result) {
	res = result{Id: id, Mode: "download", Status: "ok"}
	fail := func(kind, d string) result {
		res.Status, res.Owner, res.Mismatch = "violation", "C11", &mismatch{Kind: kind, Detail: d}
		return res
	}
	dir, err := os.MkdirTemp(base, "dl")
	if err != nil {
		res.Status, res.Error = "error", err.Error()
		return
	}
	defer os.RemoveAll(dir)
	cfg := drv.NewConfig(dir, 1)
	unit := 1024 * max(sc.Unit, 1)
	size := sc.Len * unit
	if sc.Len > 0 && variant%2 == 1 {
		size += 7
	}
	src := pattern(size, byte(0x20|id))
	srv, err := verif.StartServer(cfg)
	if err != nil {
		res.Status, res.Error = "error", err.Error()
		return
	}
	defer srv.Stop()
	px, err := newProxy(srv.Addr)
	if err != nil {
		res.Status, res.Error = "error", err.Error()
		return
	}
	defer px.close()
	ctx := context.Background()
	db, _ := external.Open(ctx, px.lis.Addr().String())
	if err := db.Set(ctx, "key", src); err != nil {
		res.Status, res.Error = "error", "setup: "+err.Error()
		return
	}
	rctx, cancel := context.WithCancel(ctx)
	defer cancel()
	// the fault hits once about p units of the answer have travelled to the client (plus a few bytes of framing)
	budget := sc.P*unit + []int{0, 9, 40, 300, 5000, 40000}[(variant/2)%6]
	switch sc.Kind {
	case "cut":
		px.arm(budget, px.cut)
	case "cancel":
		px.arm(budget, cancel)
	}
	pauseAt := -1
	if sc.Kind == "pause" {
		pauseAt = sc.P * unit
	}
	var (
		got  []byte
		rErr error
	)
	if sc.Api == "get" {
		got, rErr = db.Get(rctx, "key")
	} else {
		var rc io.ReadCloser
		rc, rErr = db.GetReader(rctx, "key")
		if rErr == nil {
			buf := make([]byte, []int{1, 100, 2048, 5000, 70000}[(variant/8)%5])
			for {
				n, err := rc.Read(buf)
				got = append(got, buf[:n]...)
				if pauseAt >= 0 && len(got) >= pauseAt {
					pauseAt = -1
					time.Sleep(5 * time.Second) // the caller is busy with what it has read so far
				}
				if err == io.EOF {
					break
				}
				if err != nil {
					rErr = err
					break
				}
			}
			rc.Close()
		}
	}
	where := fmt.Sprintf("%s of %d bytes through the gRPC client, %s once about %d bytes had reached the client, %s", map[string]string{"get": "Get", "reader": "GetReader+Read*"}[sc.Api],
		size, sc.Kind, budget, errStr(rErr))
	if rErr == nil && !bytes.Equal(got, src) {
		return fail("truncated", fmt.Sprintf("the read ended without an error after %d bytes (a prefix of the content: %v): %s",
			len(got), len(got) <= len(src) && bytes.Equal(got, src[:len(got)]), where))
	}
	if sc.Api == "reader" && (len(got) > len(src) || !bytes.Equal(got, src[:len(got)])) {
		first := 0
		for first < len(got) && first < len(src) && got[first] == src[first] {
			first++
		}
		return fail("garbled", fmt.Sprintf("the %d bytes delivered before the error are not a prefix of the content (first difference at offset %d): %s", len(got), first, where))
	}
	if (sc.Kind == "none" || sc.Kind == "pause") && rErr != nil {
		return fail("failed", "a read over a healthy connection failed: "+where)
	}
	return res
}

func errStr(err error) string {
	if err == nil {
		return "returned nil"
	}
	s := err.Error()
	if len(s) > 160 {
		s = s[:160]
	}
	return "returned error: " + s
}

func main() {
	var (
		in    = flag.String("in", "", "scenarios emitted by SetRetry.tla or Upload.tla")
		from  = flag.Int("from", 0, "first line")
		count = flag.Int("count", -1, "number of lines")
		seed  = flag.Int64("seed", 1, "seed (selects the variants: write path, client, sizes, offsets)")
		base  = flag.String("base", "/dev/shm", "scratch directory")
	)
	flag.String("mode", "", "ignored")
	flag.Bool("fs", true, "ignored")
	flag.Parse()
	drv.Quiet()
	f, err := os.Open(*in)
	if err != nil {
		fmt.Fprintln(os.Stderr, err)
		os.Exit(2)
	}
	defer f.Close()
	sc := bufio.NewScanner(f)
	sc.Buffer(make([]byte, 1<<20), 1<<26)
	w := bufio.NewWriter(os.Stdout)
	defer w.Flush()
	enc := json.NewEncoder(w)
	n := 0
	for line := 0; sc.Scan(); line++ {
		if line < *from {
			continue
		}
		if *count >= 0 && n >= *count {
			break
		}
		n++
		var scs []scenario
		if err := json.Unmarshal(sc.Bytes(), &scs); err != nil || len(scs) != 1 {
			enc.Encode(result{Id: line, Status: "error", Error: fmt.Sprint("parse: ", err)})
			continue
		}
		variant := int(*seed)*31 + line*7
		if variant < 0 {
			variant = -variant
		}
		if scs[0].Api != "" {
			enc.Encode(runDownload(line, scs[0], variant, *base))
		} else if scs[0].Kind != "" {
			enc.Encode(runUpload(line, scs[0], variant, *base))
		} else {
			enc.Encode(runNoSpace(line, scs[0], variant, *base))
		}
	}
	_ = config.Config{}
}
