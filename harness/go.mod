module fsdbverif

go 1.23.0

replace github.com/glebziz/fs_db => /repo

require github.com/glebziz/fs_db v0.0.0-00010101000000-000000000000

require (
	github.com/cespare/xxhash v1.1.0 // indirect
	github.com/cespare/xxhash/v2 v2.3.0 // indirect
	github.com/dgraph-io/badger/v3 v3.2103.5 // indirect
	github.com/dgraph-io/ristretto v0.2.0 // indirect
	github.com/dustin/go-humanize v1.0.1 // indirect
	github.com/glebziz/containers v1.0.2 // indirect
	github.com/gogo/protobuf v1.3.2 // indirect
	github.com/golang/groupcache v0.0.0-20210331224755-41bb18bfe9da // indirect
	github.com/golang/protobuf v1.5.4 // indirect
	github.com/golang/snappy v0.0.4 // indirect
	github.com/google/flatbuffers v24.3.25+incompatible // indirect
	github.com/google/uuid v1.6.0 // indirect
	github.com/klauspost/compress v1.17.11 // indirect
	github.com/pkg/errors v0.9.1 // indirect
	github.com/samber/lo v1.47.0 // indirect
	github.com/shirou/gopsutil v3.21.11+incompatible // indirect
	go.opencensus.io v0.24.0 // indirect
	golang.org/x/net v0.31.0 // indirect
	golang.org/x/sys v0.27.0 // indirect
	golang.org/x/text v0.20.0 // indirect
	google.golang.org/genproto/googleapis/rpc v0.0.0-20241118233622-e639e219e697 // indirect
	google.golang.org/grpc v1.68.0 // indirect
	google.golang.org/protobuf v1.35.2 // indirect
	gopkg.in/yaml.v2 v2.4.0 // indirect
)
