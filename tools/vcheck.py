#!/usr/bin/env python3
"""vcheck.py <property> <quick|thorough> -- decides one property of fs_db (see DESIGN.md).

exit 0: held on everything explored (KNOWN-FINDING lines possible)
exit 1: `VIOLATION property=<id> replay=<path>` printed
exit 2: inconclusive (tool failure, timeout, dead driver) -- never a verdict
"""
import json
import os
import random
import shutil
import sys

sys.path.insert(0, os.path.dirname(os.path.abspath(__file__)))
import vlib  # noqa: E402
from vlib import Inconclusive  # noqa: E402

L1_INVARIANTS = ("XRefines", "XRegAgrees", "XReadableHasContent", "XReclaimed", "XTypeOK")
L1_PROPERTIES = ("XGCInvisible", "XLateIsIdentity", "XCommitAsPromised")


def allowed_dev():
    return sorted({f["signature"] for f in vlib.known_findings().get("findings", []) if f.get("deviation")})


def l1_stage(chk, name, constants, **kw):
    """FsDb.tla (L1): design-level properties checked by TLC, every emitted behaviour replayed by `session`."""
    consts = dict(constants)
    consts.setdefault("AllowedDev", set(allowed_dev()))
    simulate = kw.get("simulate")
    return spec_stage(chk, name, "FsDb.tla", consts, view="RankView", emit="EmitFinal" if simulate else "Emit",
                      invariants=L1_INVARIANTS, properties=() if simulate else L1_PROPERTIES, exe="session", **kw)


def spec_stage(chk, name, module, consts, view, emit, invariants, properties, exe, mode="inline", keep=None, sample=None,
               simulate=None, depth=None, workers=vlib.NPROC, timeout=3000, fs=True, coverage=False, chunk=400):
    """One exhaustive (or simulated) TLC run that checks the design-level properties and emits every behaviour,
    followed by the replay of the (maximal, filtered, sampled) behaviours in the real code."""
    wd = vlib.scratch("st")
    try:
        cfg = os.path.join(wd, name + ".cfg")
        vlib.write_cfg(cfg, consts, view=view, action_constraint=emit, invariants=invariants, properties=properties)
        emitted = os.path.join(wd, "emitted.ndjson")
        r = vlib.run_tlc(module, cfg, wd, workers=(1 if simulate else workers), simulate=simulate, depth=depth,
                         tseed=vlib.seed(), timeout=timeout, emit_to=emitted, coverage=coverage)
        st = chk.add_tlc(name + ":tlc", r, consts)
        if r.violation:
            # The design itself breaks a property in the model. That is a candidate only: the offending behaviour
            # (printed by the X-property) is replayed first, and TLC is run again without the properties so that
            # the complete set of behaviours is still emitted and replayed.
            st["tlc_violation"] = r.violation[:1500]
            chk.extra.setdefault("design_counterexamples", []).append({"stage": name, "text": r.violation[:3000]})
            cexf = os.path.join(wd, "cex.ndjson")
            with open(cexf, "w") as f:
                for c in r.cex:
                    f.write(c + "\n")
            before = len(chk.violations) + len(chk.known)
            if r.cex:
                cres = vlib.replay(cexf, mode=mode, fs=fs, exe_name=exe, chunk=chunk)
                chk.absorb_replay(name + ":replay-counterexample(" + mode + ")", cres, cexf)
            if len(chk.violations) + len(chk.known) == before:
                raise Inconclusive("TLC reports a design-level violation in stage %s that the real code does not show: "
                                   "the model misrepresents the code (counterexample kept in the evidence file)" % name)
            vlib.write_cfg(cfg, consts, view=view, action_constraint=emit, invariants=(), properties=())
            r = vlib.run_tlc(module, cfg, wd, workers=(1 if simulate else workers), simulate=simulate, depth=depth,
                             tseed=vlib.seed(), timeout=timeout, emit_to=emitted)
            st = chk.add_tlc(name + ":tlc-emit-only", r, consts)
        beh = os.path.join(wd, "beh.ndjson")
        n_in, n_max, n_out = vlib.dedup_prefixes(emitted, beh, keep=keep, sample=sample,
                                                 rnd=random.Random(vlib.seed() * 7919 + len(chk.stages)))
        st.update({"transitions_emitted": n_in, "maximal_behaviours": n_max, "behaviours_replayed": n_out})
        res = vlib.replay(beh, mode=mode, fs=fs, exe_name=exe, chunk=chunk)
        chk.absorb_replay(name + ":replay(" + mode + ")", res, beh)
    finally:
        shutil.rmtree(wd, ignore_errors=True)


def has(*ops):
    s = set(ops)
    return lambda steps: any(st["op"] in s for st in steps)


K2 = {"k1", "k2"}
K1 = {"k1"}
K3 = {"k1", "k2", "k3"}
TXOPS = {"set", "del", "begin", "commit", "rollback"}


def c01(chk):
    quick = chk.tier == "quick"
    auto = {"set", "del", "emptyset"}
    l1_stage(chk, "auto_2keys", dict(Keys=K2, MaxTx=0, MaxSteps=5 if quick else 7, Levels={"RC"}, Ops=auto),
             sample=None if quick else 40000)
    l1_stage(chk, "auto_3keys", dict(Keys=K3, MaxTx=0, MaxSteps=4 if quick else 5, Levels={"RC"}, Ops=auto))
    l1_stage(chk, "auto_sim", dict(Keys=K3, MaxTx=0, MaxSteps=40, Levels={"RC"}, Ops=auto),
             simulate=60 if quick else 1500, depth=40)
    chk.assumptions += ["contents are sampled per length class (0,1,2047..100000 bytes), compared byte for byte",
                        "keys come from a fixed pool of valid UTF-8 keys (multi-byte, separators, prefixes, 300 bytes)"]


def c02(chk):
    quick = chk.tier == "quick"
    base = dict(Keys=K2, MaxTx=2, Levels={"RU", "RC", "RR"}, Ops=TXOPS | {"gc"})
    l1_stage(chk, "tx_d4", dict(base, MaxSteps=4), keep=has("begin"))
    l1_stage(chk, "tx_d5", dict(base, MaxSteps=5), keep=has("begin"), sample=6000 if quick else None)
    l1_stage(chk, "tx_ser_1key", dict(Keys=K1, MaxTx=3, MaxSteps=5 if quick else 6, Levels={"RU", "RC", "RR", "SER"}, Ops=TXOPS),
             keep=has("begin"), sample=3000 if quick else 60000)
    l1_stage(chk, "tx_sim", dict(Keys=K3, MaxTx=4, MaxSteps=40, Levels={"RU", "RC", "RR", "SER"}, Ops=TXOPS | {"gc"}),
             simulate=60 if quick else 2000, depth=40)
    if not quick:
        l1_stage(chk, "tx_d6_sample", dict(base, MaxSteps=6), keep=has("begin"), sample=30000)
    chk.assumptions += ["Serializable is Repeatable Read, as the project documents",
                        "ReadUncommitted: a Commit counts as the write of its final values at commit time"]


def c03(chk):
    quick = chk.tier == "quick"
    ends = has("commit", "rollback")
    l1_stage(chk, "commit_2keys", dict(Keys=K2, MaxTx=2, MaxSteps=5, Levels={"RC", "RR"}, Ops=TXOPS),
             keep=ends, sample=7000 if quick else None)
    l1_stage(chk, "commit_3tx_1key", dict(Keys=K1, MaxTx=3, MaxSteps=5 if quick else 6, Levels={"RU", "RR", "SER"}, Ops={"set", "del", "begin", "commit", "rollback"}),
             keep=ends, sample=4000 if quick else 80000)
    l1_stage(chk, "commit_sim", dict(Keys=K3, MaxTx=4, MaxSteps=40, Levels={"RU", "RC", "RR", "SER"}, Ops=TXOPS),
             simulate=60 if quick else 2000, depth=40)
    if not quick:
        l1_stage(chk, "commit_2keys_d6", dict(Keys=K2, MaxTx=2, MaxSteps=6, Levels={"RC", "RR"}, Ops=TXOPS), keep=ends, sample=40000)


def c09(chk):
    quick = chk.tier == "quick"
    gc = has("gc")
    l1_stage(chk, "gc_2keys", dict(Keys=K2, MaxTx=2, MaxSteps=5, Levels={"RU", "RC", "RR"}, Ops=TXOPS | {"gc"}),
             keep=gc, sample=6000 if quick else None)
    l1_stage(chk, "gc_focus", dict(Keys=K1, MaxTx=3, MaxSteps=6 if quick else 8, Levels={"RC", "RR"}, Ops={"set", "del", "begin", "gc", "commit"}),
             keep=gc, sample=6000 if quick else 80000)
    l1_stage(chk, "gc_sim", dict(Keys=K2, MaxTx=4, MaxSteps=50, Levels={"RU", "RC", "RR", "SER"}, Ops=TXOPS | {"gc"}),
             simulate=60 if quick else 2000, depth=50)


def c13(chk):
    quick = chk.tier == "quick"
    late = has("lset", "ldel", "lget", "lkeys", "lcommit", "lrollback")
    ops = {"set", "begin", "commit", "rollback", "late"}
    l1_stage(chk, "late_1key", dict(Keys=K1, MaxTx=2, MaxSteps=5 if quick else 6, Levels={"RU", "RC", "RR"}, Ops=ops),
             keep=late, sample=6000 if quick else 80000)
    l1_stage(chk, "late_2keys_ru", dict(Keys=K2, MaxTx=2, MaxSteps=5, Levels={"RU", "SER"}, Ops=ops | {"del"}),
             keep=late, sample=4000 if quick else 60000)
    l1_stage(chk, "late_reopen", dict(Keys=K1, MaxTx=2, MaxSteps=6, Levels={"RU", "RC"}, Ops=ops | {"reopen"}),
             keep=lambda s: late(s) and has("reopen")(s), sample=2000 if quick else 30000)


def c14(chk):
    quick = chk.tier == "quick"
    quiet = lambda steps: any(st["q"] for st in steps)  # noqa: E731
    ops = TXOPS | {"gc"}
    l1_stage(chk, "disk_2keys", dict(Keys=K2, MaxTx=2, MaxSteps=5 if quick else 6, Levels={"RC", "RR"}, Ops=ops),
             keep=lambda s: s[-1]["q"] and len(s) >= 3, sample=6000 if quick else 80000)
    l1_stage(chk, "disk_reopen", dict(Keys=K2, MaxTx=1, MaxSteps=5 if quick else 6, Levels={"RC"}, Ops=ops | {"reopen"}),
             keep=lambda s: s[-1]["q"] and has("reopen")(s), sample=3000 if quick else 40000)
    l1_stage(chk, "disk_sim", dict(Keys=K3, MaxTx=3, MaxSteps=60, Levels={"RC", "RR"}, Ops=ops),
             simulate=60 if quick else 1500, depth=60, keep=quiet)


def set_rule():
    """"cas0" (sequence.Set only acts on a zero counter, the code as found) unless the repair is recorded."""
    fixed = [f for f in vlib.known_findings().get("fixed", []) if f.get("signature") == "seq-set-cas-from-zero"]
    return "max" if fixed else "cas0"


def c05(chk):
    quick = chk.tier == "quick"
    # (a) one process, Close/Open at every position of transactional histories (FsDb.tla)
    re_ = has("reopen")
    l1_stage(chk, "reopen_inproc", dict(Keys=K2, MaxTx=1, MaxSteps=5, Levels={"RC", "RR"}, Ops=TXOPS | {"reopen", "gc"}),
             keep=re_, sample=4000 if quick else 60000)
    # (b) several instances, several processes (Reopen.tla)
    rule = set_rule()
    for nm, consts, smp in (
            ("procs_2inst", dict(Inst={"A", "B"}, Keys=K1, MaxSteps=10 if quick else 11, MaxProcs=2 if quick else 3, SetRule=rule), 500 if quick else 6000),
            ("procs_1inst_2keys", dict(Inst={"A"}, Keys=K2, MaxSteps=7 if quick else 9, MaxProcs=3, SetRule=rule), 300 if quick else 4000)):
        spec_stage(chk, nm, "Reopen.tla", consts, view="View", emit="Emit", invariants=("XLastWriteWins",),
                   properties=(), exe="procs", keep=has("close", "newproc"), sample=smp, chunk=40)
    chk.assumptions += ["processes end with all instances closed cleanly (kills are C04's quantifier)"]


VL_INV = ("XMirrorInSync", "XSearchCorrect", "XCollectCorrect", "XSorted")


def c18(chk):
    quick = chk.tier == "quick"
    common = dict(view="View", invariants=VL_INV, properties=(), exe="vlist", fs=False, chunk=20000)
    spec_stage(chk, "machine", "VersionList.tla", dict(N=6 if quick else 8, MaxSteps=7 if quick else 9, Mode="machine"), emit="Emit", **common)
    spec_stage(chk, "subsets12", "VersionList.tla", dict(N=12, MaxSteps=1, Mode="subsets"), emit="Emit", **common)
    long_ = dict(common, invariants=("XMirrorInSync", "XSorted"))   # the search/collect theorems are checked on the small domains
    spec_stage(chk, "long_sim", "VersionList.tla", dict(N=400 if quick else 3000, MaxSteps=300 if quick else 2500, Mode="machine"), emit="EmitFinal",
               simulate=8 if quick else 40, depth=300 if quick else 2500, **long_)
    chk.assumptions += ["the collector's use of IterateBeforeSeq (yield, then PopFront) is driven as usecase/core/delete_old.go drives it"]


def c19(chk):
    quick = chk.tier == "quick"
    common = dict(view=None, properties=(), exe="record", fs=False, chunk=5000)
    spec_stage(chk, "golden_records", "Record.tla", dict(Mode="records", MaxLen=0), emit="Emit",
               invariants=("RoundTrip", "ShortRejected"), sample=3000 if quick else None, **common)
    spec_stage(chk, "byte_strings", "Record.tla", dict(Mode="bytes", MaxLen=42), emit="Emit", invariants=(),
               simulate=60 if quick else 1500, depth=43, **common)
    fixture_stage(chk)
    chk.assumptions += ["the layout function of Record.tla is the release layout stated in the property (transcription)",
                        "sequence values are rebuilt from base-256 digits by positional value, not by a byte-order routine"]


def fixture_stage(chk):
    """A database directory written by the pinned revision must load to the recorded state."""
    import subprocess
    exe = vlib.build("fixture")
    fx = os.path.join(vlib.VERIF, "fixtures", "pinned_db")
    wd = vlib.scratch("fx")
    try:
        shutil.copytree(fx, os.path.join(wd, "fx"))
        p = subprocess.run([exe, "-check", os.path.join(wd, "fx")], capture_output=True, text=True, timeout=300, env=vlib.GOENV)
        out = p.stdout.strip().splitlines()
        last = json.loads(out[-1]) if out else {}
        chk.traces += 1
        chk.stages.append({"stage": "pinned_fixture", "keys_checked": last.get("keys", 0), "status": last.get("status")})
        if last.get("status") == "violation":
            chk.violation("database written by the pinned revision: " + last.get("detail", ""), {"fixture": fx, "detail": last})
        elif last.get("status") != "ok":
            raise Inconclusive("fixture check failed to run: %s %s" % (p.stdout[-500:], p.stderr[-500:]))
    finally:
        shutil.rmtree(wd, ignore_errors=True)


def c20(chk):
    quick = chk.tier == "quick"
    spec_stage(chk, "cases", "Config.tla", dict(Width=2 if quick else 3), view=None, emit="Emit", invariants=("Layering",),
               properties=(), exe="conf", fs=False, chunk=2000)
    chk.assumptions += ["settings interact only through error precedence and Valid, so all cases with at most %d settings away from 'absent' are enumerated" % (2 if quick else 3)]


def c11(chk):
    quick = chk.tier == "quick"
    auto = {"set", "del", "emptyset"}
    late = has("lset", "ldel", "lget", "lkeys", "lcommit", "lrollback")
    l1_stage(chk, "ext_auto", dict(Keys=K2, MaxTx=0, MaxSteps=4 if quick else 5, Levels={"RC"}, Ops=auto), mode="both")
    l1_stage(chk, "ext_tx", dict(Keys=K2, MaxTx=2, MaxSteps=4 if quick else 5, Levels={"RU", "RC", "RR", "SER"}, Ops=TXOPS | {"emptyset"}),
             mode="both", keep=has("begin"), sample=2500 if quick else 30000)
    l1_stage(chk, "ext_late_restart", dict(Keys=K1, MaxTx=2, MaxSteps=5, Levels={"RU", "RC", "RR"}, Ops={"set", "begin", "commit", "rollback", "late", "gc", "reopen"}),
             mode="both", keep=late, sample=1500 if quick else 20000)
    l1_stage(chk, "ext_sim", dict(Keys=K3, MaxTx=3, MaxSteps=30, Levels={"RU", "RC", "RR", "SER"}, Ops=TXOPS | {"emptyset", "gc"}),
             mode="both", simulate=40 if quick else 800, depth=30)


PLANS = {"C18": c18, "C19": c19, "C20": c20, "C05": c05, "C11": c11, "C01": c01, "C02": c02, "C03": c03, "C09": c09, "C13": c13, "C14": c14}


def main():
    if len(sys.argv) < 3 or sys.argv[1] not in PLANS or sys.argv[2] not in ("quick", "thorough"):
        print("usage: vcheck.py <%s> <quick|thorough>" % "|".join(sorted(PLANS)))
        return 2
    prop, tier = sys.argv[1], sys.argv[2]
    os.environ.setdefault("VERIF_TIER", tier)
    return vlib.main_wrapper(PLANS[prop], prop, tier)


if __name__ == "__main__":
    sys.exit(main())
