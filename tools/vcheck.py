#!/usr/bin/env python3
"""vcheck.py <property> <quick|thorough> -- decides one property of fs_db (see DESIGN.md).

exit 0: held on everything explored (KNOWN-FINDING lines possible)
exit 1: `VIOLATION property=<id> replay=<path>` printed
exit 2: inconclusive (tool failure, timeout, dead driver) -- never a verdict
"""
import json
import time
import os
import random
import shutil
import sys

sys.path.insert(0, os.path.dirname(os.path.abspath(__file__)))
import vlib  # noqa: E402
from vlib import Inconclusive  # noqa: E402

L1_INVARIANTS = ("XRefines", "XRegAgrees", "XReadableHasContent", "XReclaimed", "XTypeOK")
L1_PROPERTIES = ("XGCInvisible", "XLateIsIdentity", "XCommitAsPromised")


def allowed_dev():
    return sorted({f["signature"] for f in vlib.known_findings().get("findings", []) if f.get("deviation")})


def l1_stage(chk, name, constants, **kw):
    """FsDb.tla (L1): design-level properties checked by TLC, every emitted behaviour replayed by `session`."""
    consts = dict(constants)
    consts.setdefault("AllowedDev", set(allowed_dev()))
    simulate = kw.get("simulate")
    return spec_stage(chk, name, "FsDb.tla", consts, view="RankView", emit="EmitFinal" if simulate else "Emit",
                      invariants=L1_INVARIANTS, properties=() if simulate else L1_PROPERTIES, exe="session", **kw)


def spec_stage(chk, name, module, consts, view, emit, invariants, properties, exe, mode="inline", keep=None, sample=None,
               simulate=None, depth=None, workers=vlib.NPROC, timeout=3000, fs=True, coverage=False, chunk=400, emit_invariants=(),
               spec=None):
    """One exhaustive (or simulated) TLC run that checks the design-level properties and emits every behaviour,
    followed by the replay of the (maximal, filtered, sampled) behaviours in the real code."""
    wd = vlib.scratch("st")
    try:
        cfg = os.path.join(wd, name + ".cfg")
        vlib.write_cfg(cfg, consts, view=view, action_constraint=emit, invariants=tuple(emit_invariants) + tuple(invariants),
                       properties=properties, spec=spec)
        emitted = os.path.join(wd, "emitted.ndjson")
        r = vlib.run_tlc(module, cfg, wd, workers=(1 if simulate else workers), simulate=simulate, depth=depth,
                         tseed=vlib.seed(), timeout=timeout, emit_to=emitted, coverage=coverage)
        st = chk.add_tlc(name + ":tlc", r, consts)
        if r.violation:
            # The design itself breaks a property in the model. That is a candidate only: the offending behaviour
            # (printed by the X-property) is replayed first, and TLC is run again without the properties so that
            # the complete set of behaviours is still emitted and replayed.
            st["tlc_violation"] = r.violation[:1500]
            chk.extra.setdefault("design_counterexamples", []).append({"stage": name, "text": r.violation[:3000]})
            cexf = os.path.join(wd, "cex.ndjson")
            with open(cexf, "w") as f:
                for c in r.cex:
                    f.write(c + "\n")
            before = len(chk.violations) + len(chk.known)
            if r.cex:
                cres = vlib.replay(cexf, mode=mode, fs=fs, exe_name=exe, chunk=chunk)
                chk.absorb_replay(name + ":replay-counterexample(" + mode + ")", cres, cexf)
            if len(chk.violations) + len(chk.known) == before:
                raise Inconclusive("TLC reports a design-level violation in stage %s that the real code does not show: "
                                   "the model misrepresents the code (counterexample kept in the evidence file)" % name)
            vlib.write_cfg(cfg, consts, view=view, action_constraint=emit, invariants=tuple(emit_invariants), properties=())
            r = vlib.run_tlc(module, cfg, wd, workers=(1 if simulate else workers), simulate=simulate, depth=depth,
                             tseed=vlib.seed(), timeout=timeout, emit_to=emitted)
            st = chk.add_tlc(name + ":tlc-emit-only", r, consts)
        beh = os.path.join(wd, "beh.ndjson")
        n_in, n_max, n_out = vlib.dedup_prefixes(emitted, beh, keep=keep, sample=sample,
                                                 rnd=random.Random(vlib.seed() * 7919 + len(chk.stages)))
        st.update({"transitions_emitted": n_in, "maximal_behaviours": n_max, "behaviours_replayed": n_out})
        res = vlib.replay(beh, mode=mode, fs=fs, exe_name=exe, chunk=chunk)
        chk.absorb_replay(name + ":replay(" + mode + ")", res, beh)
    finally:
        shutil.rmtree(wd, ignore_errors=True)


LATE = {"lset", "ldel", "lget", "lkeys", "lcommit", "lrollback"}


def trace_owner(events, i, why):
    """Which property owns the first event the promise cannot explain (same rule as the replay harness)."""
    prefix = events[:i + 1]
    if why and why[0] == "files":
        return "C14"
    if any(e["op"] == "reopen" for e in prefix):
        return "C05"
    op = events[i]["op"]
    if op in LATE:
        return "C13"
    if op == "gc":
        return "C09"
    if op in ("commit", "rollback"):
        if why and why[0] == "result":
            return "C03"
        reader = why[why.index("reader") + 1] if "reader" in why else 0
        return "C03" if reader == 0 else "C02"
    return "C02" if any(e["op"] == "begin" for e in prefix) else "C01"


def trace_stage(chk, name, module, consts, specs, fixed_owner=None, batch=40, vtimeout=900):
    """Direction B: record executions of the real code with cmd/rnd, let TLC validate them against `module`.
    A rejected trace is a disagreement with the promise; it is attributed by the ownership rule, after blame by
    ablation (the same seeded history recorded again without the collector / without late operations)."""
    wd = vlib.scratch("tr")
    try:
        paths, failed = vlib.record_traces(specs, wd)
        for i, rc, err in failed:
            # the driver died: the real code panicked or hung under this history
            chk.violation("the real code died while recording the history of seed %s: rc=%s %s" % (specs[i].get("seed"), rc, err[-600:]), {"rnd": specs[i]})
        ok_paths = [(i, p) for i, p in enumerate(paths) if i not in {f[0] for f in failed} and os.path.exists(p)]
        n_events = 0
        n_ok = 0
        todo = list(ok_paths)
        while todo:
            cur, todo = todo[:batch], todo[batch:]
            sub = vlib.scratch("tv")
            try:
                r, rej = vlib.validate_traces(module, consts, [p for _, p in cur], sub, timeout=vtimeout)
                chk.states += r.distinct
                chk.transitions += r.generated
                chk.drift += getattr(r, "drift", 0)
                if rej is None:
                    n_ok += len(cur)
                    n_events += r.distinct - 1
                    continue
                ti, ei, why = rej
                si, path = cur[ti]
                n_ok += ti
                events = [json.loads(l) for l in open(path) if l.strip()]
                owner = fixed_owner or trace_owner(events, ei, why)
                ablated = None
                if not fixed_owner:
                    prefix_ops = {e["op"] for e in events[:ei + 1]}
                    for skip, own in ((["gc"], "C09"), (["gc", "late"], "C13")):
                        if (skip[-1] == "gc" and "gc" in prefix_ops) or (skip[-1] == "late" and prefix_ops & LATE):
                            sp = dict(specs[si], skip=",".join(skip), steps=events[ei]["n"] + 1)
                            sub2 = vlib.scratch("ab")
                            try:
                                p2, f2 = vlib.record_traces([sp], sub2)
                                if not f2:
                                    _, rej2 = vlib.validate_traces(module, consts, p2, sub2)
                                    if rej2 is None:
                                        owner, ablated = own, "+".join(skip)
                                        break
                            finally:
                                shutil.rmtree(sub2, ignore_errors=True)
                desc = "recorded execution (seed %s, event %d: %s) is not a behaviour of the promise: %s" % (
                    specs[si].get("seed"), ei, events[ei]["op"], " ".join(str(x) for x in why))
                if owner == chk.prop:
                    chk.violation(desc, {"rnd": specs[si], "event_index": ei, "reason": why, "ablated": ablated,
                                         "events": [{k: v for k, v in e.items() if k not in ("obs", "keys", "fs")} for e in events[max(0, ei - 30):ei + 1]]})
                else:
                    chk.out_of_scope[owner] = chk.out_of_scope.get(owner, 0) + 1
                # the traces after the rejected one have not been looked at yet
                todo = cur[ti + 1:] + todo
            finally:
                shutil.rmtree(sub, ignore_errors=True)
        chk.traces += len(ok_paths)
        chk.stages.append({"stage": name + ":traces", "module": module, "traces_recorded": len(paths), "traces_accepted": n_ok,
                           "events_validated": n_events, "driver": {k: v for k, v in specs[0].items() if k != "seed"} if specs else {}})
        if ok_paths and len(chk.samples) < 4:
            ev = [json.loads(l) for l in open(ok_paths[0][1])][:8]
            chk.samples.append({"stage": name, "trace_prefix": [{k: v for k, v in e.items() if k not in ("keys", "fs")} for e in ev]})
    finally:
        shutil.rmtree(wd, ignore_errors=True)


def keyset(n):
    return {"k%d" % i for i in range(1, n + 1)}


def l0_traces(chk, name, n, steps, keys, maxtx, ops, levels="RU,RC,RR,SER", mode="inline", big=False):
    specs = [dict(seed=vlib.seed() * 100003 + i, steps=steps, keys=keys, maxtx=maxtx, ops=ops, levels=levels, mode=mode,
                  big=("true" if big and i % 4 == 0 else "false")) for i in range(n)]
    trace_stage(chk, name, "L0Trace.tla", dict(Keys=keyset(keys), AllowedDev=set(allowed_dev())), specs)


def has(*ops):
    s = set(ops)
    return lambda steps: any(st["op"] in s for st in steps)


K2 = {"k1", "k2"}
K1 = {"k1"}
K3 = {"k1", "k2", "k3"}
TXOPS = {"set", "del", "begin", "commit", "rollback"}


def c01(chk):
    quick = chk.tier == "quick"
    auto = {"set", "del", "emptyset"}
    l1_stage(chk, "auto_2keys", dict(Keys=K2, MaxTx=0, MaxSteps=5 if quick else 7, Levels={"RC"}, Ops=auto),
             sample=None if quick else 40000)
    l1_stage(chk, "auto_3keys", dict(Keys=K3, MaxTx=0, MaxSteps=4 if quick else 5, Levels={"RC"}, Ops=auto))
    l1_stage(chk, "auto_sim", dict(Keys=K3, MaxTx=0, MaxSteps=40, Levels={"RC"}, Ops=auto),
             simulate=60 if quick else 1500, depth=40)
    l0_traces(chk, "auto_traces", 16 if quick else 240, 500, 12, 0, "set,del,emptyset", big=True)
    chk.assumptions += ["contents are sampled per length class (0,1,2047..100000 bytes), compared byte for byte",
                        "keys come from a fixed pool of valid UTF-8 keys (multi-byte, separators, prefixes, 300 bytes)"]


def c02(chk):
    quick = chk.tier == "quick"
    base = dict(Keys=K2, MaxTx=2, Levels={"RU", "RC", "RR"}, Ops=TXOPS | {"gc"})
    l1_stage(chk, "tx_d4", dict(base, MaxSteps=4), keep=has("begin"))
    l1_stage(chk, "tx_d5", dict(base, MaxSteps=5), keep=has("begin"), sample=6000 if quick else None)
    l1_stage(chk, "tx_ser_1key", dict(Keys=K1, MaxTx=3, MaxSteps=5 if quick else 6, Levels={"RU", "RC", "RR", "SER"}, Ops=TXOPS),
             keep=has("begin"), sample=3000 if quick else 60000)
    l1_stage(chk, "tx_sim", dict(Keys=K3, MaxTx=4, MaxSteps=40, Levels={"RU", "RC", "RR", "SER"}, Ops=TXOPS | {"gc"}),
             simulate=60 if quick else 2000, depth=40)
    l0_traces(chk, "tx_traces", 16 if quick else 240, 500, 8, 6, "set,del,begin,commit,rollback")
    l0_traces(chk, "tx_traces_few_keys", 16 if quick else 120, 400, 2, 5, "set,del,begin,commit,rollback")
    if not quick:
        l1_stage(chk, "tx_d6_sample", dict(base, MaxSteps=6), keep=has("begin"), sample=30000)
    chk.assumptions += ["Serializable is Repeatable Read, as the project documents",
                        "ReadUncommitted: a Commit counts as the write of its final values at commit time"]


def c03(chk):
    quick = chk.tier == "quick"
    ends = has("commit", "rollback")
    l1_stage(chk, "commit_2keys", dict(Keys=K2, MaxTx=2, MaxSteps=5, Levels={"RC", "RR"}, Ops=TXOPS),
             keep=ends, sample=7000 if quick else None)
    l1_stage(chk, "commit_3tx_1key", dict(Keys=K1, MaxTx=3, MaxSteps=5 if quick else 6, Levels={"RU", "RR", "SER"}, Ops={"set", "del", "begin", "commit", "rollback"}),
             keep=ends, sample=4000 if quick else 80000)
    l1_stage(chk, "commit_sim", dict(Keys=K3, MaxTx=4, MaxSteps=40, Levels={"RU", "RC", "RR", "SER"}, Ops=TXOPS),
             simulate=60 if quick else 2000, depth=40)
    l0_traces(chk, "commit_traces", 16 if quick else 240, 400, 3, 5, "set,del,begin,commit,rollback", levels="RC,RR,SER")
    if not quick:
        l1_stage(chk, "commit_2keys_d6", dict(Keys=K2, MaxTx=2, MaxSteps=6, Levels={"RC", "RR"}, Ops=TXOPS), keep=ends, sample=40000)


def c09(chk):
    quick = chk.tier == "quick"
    gc = has("gc")
    l1_stage(chk, "gc_2keys", dict(Keys=K2, MaxTx=2, MaxSteps=5, Levels={"RU", "RC", "RR"}, Ops=TXOPS | {"gc"}),
             keep=gc, sample=6000 if quick else None)
    l1_stage(chk, "gc_focus", dict(Keys=K1, MaxTx=3, MaxSteps=6 if quick else 8, Levels={"RC", "RR"}, Ops={"set", "del", "begin", "gc", "commit"}),
             keep=gc, sample=6000 if quick else 80000)
    l1_stage(chk, "gc_sim", dict(Keys=K2, MaxTx=4, MaxSteps=50, Levels={"RU", "RC", "RR", "SER"}, Ops=TXOPS | {"gc"}),
             simulate=60 if quick else 2000, depth=50)
    # a reader held open while versions are overwritten, transactions end and the collector runs: the content a read
    # began with is never taken away from it
    held = lambda steps: has("rfinish")(steps) and gc(steps)  # noqa: E731
    l1_stage(chk, "gc_open_reader", dict(Keys=K1, MaxTx=1, MaxSteps=6 if quick else 7, Levels={"RC", "RR"}, Ops=TXOPS | {"gc", "reader"}),
             keep=held, sample=3000 if quick else 40000)
    l1_stage(chk, "gc_open_reader_ext", dict(Keys=K1, MaxTx=1, MaxSteps=5 if quick else 6, Levels={"RR"}, Ops={"set", "del", "begin", "rollback", "gc", "reader"}),
             keep=held, sample=600 if quick else 6000, mode="external")
    l0_traces(chk, "gc_traces", 16 if quick else 240, 600, 3, 5, "set,del,begin,commit,rollback,gc")
    # the database's own collector running all the time in the background ("at any moment, any number of times"): period 0
    # (continuously), 1 ms, 5 ms; snapshot transactions included (a snapshot Begin racing with the collector used to be the
    # recorded finding begin-unregistered-during-gc; with sequence.Horizon it must hold)
    lv = "RU,RC,RR,SER" if fixed_sig("begin-unregistered-during-gc") else "RU,RC"
    specs = [dict(seed=vlib.seed() * 3571 + i, steps=400, keys=3, maxtx=3, ops="set,del,begin,commit,rollback,gc", levels=lv, mode="inline",
                  gcperiod=["0s", "1ms", "5ms"][i % 3]) for i in range(6 if quick else 60)]
    trace_stage(chk, "gc_in_background", "L0Trace.tla", dict(Keys=keyset(3), AllowedDev=set(allowed_dev())), specs)


def c13(chk):
    quick = chk.tier == "quick"
    late = has("lset", "ldel", "lget", "lkeys", "lcommit", "lrollback")
    ops = {"set", "begin", "commit", "rollback", "late"}
    l1_stage(chk, "late_1key", dict(Keys=K1, MaxTx=2, MaxSteps=5 if quick else 6, Levels={"RU", "RC", "RR"}, Ops=ops),
             keep=late, sample=6000 if quick else 80000)
    # the same through the gRPC client: the handlers have their own idea of what a missing transaction means
    l1_stage(chk, "late_1key_ext", dict(Keys=K1, MaxTx=2, MaxSteps=5, Levels={"RC", "SER"}, Ops=ops),
             keep=late, sample=1500 if quick else 20000, mode="external")
    l1_stage(chk, "late_2keys_ru", dict(Keys=K2, MaxTx=2, MaxSteps=5, Levels={"RU", "SER"}, Ops=ops | {"del"}),
             keep=late, sample=4000 if quick else 60000)
    l0_traces(chk, "late_traces", 16 if quick else 160, 300, 4, 4, "set,del,begin,commit,rollback,late")
    l1_stage(chk, "late_reopen", dict(Keys=K1, MaxTx=2, MaxSteps=6, Levels={"RU", "RC"}, Ops=ops | {"reopen"}),
             keep=lambda s: late(s) and has("reopen")(s), sample=2000 if quick else 30000)


def c14(chk):
    quick = chk.tier == "quick"
    quiet = lambda steps: any(st["q"] for st in steps)  # noqa: E731
    ops = TXOPS | {"gc"}
    l1_stage(chk, "disk_2keys", dict(Keys=K2, MaxTx=2, MaxSteps=5 if quick else 6, Levels={"RC", "RR"}, Ops=ops),
             keep=lambda s: s[-1]["q"] and len(s) >= 3, sample=6000 if quick else 80000)
    l1_stage(chk, "disk_reopen", dict(Keys=K2, MaxTx=1, MaxSteps=5 if quick else 6, Levels={"RC"}, Ops=ops | {"reopen"}),
             keep=lambda s: s[-1]["q"] and has("reopen")(s), sample=3000 if quick else 40000)
    l1_stage(chk, "disk_sim", dict(Keys=K3, MaxTx=3, MaxSteps=60, Levels={"RC", "RR"}, Ops=ops),
             simulate=60 if quick else 1500, depth=60, keep=quiet)
    for nsteps in ((200, 600) if quick else (200, 600, 2000)):
        l0_traces(chk, "disk_traces_%d" % nsteps, 8 if quick else 60, nsteps, 6, 2, "set,del,begin,commit,rollback,gc,reopen")
    # at scale: transactions that leave more files behind than one cleaner job takes (Bulk.tla)
    spec_stage(chk, "bulk_leftovers", "Bulk.tla",
               dict(Ns={1, 999, 1000, 1001, 2500} if quick else {0, 1, 999, 1000, 1001, 1999, 2000, 2001, 2500, 5000}, Modes={"rollback", "supersede", "conflict"},
                    ChunkSize=1000, Variant="ascoded"),
               view=None, emit="Emit", invariants=("XReclaimed",), properties=(), exe="fixture", fs=False, chunk=2)


def set_rule():
    """"cas0" (sequence.Set only acts on a zero counter, the code as found) unless the repair is recorded."""
    fixed = [f for f in vlib.known_findings().get("fixed", []) if f.get("signature") == "seq-set-cas-from-zero"]
    return "max" if fixed else "cas0"


def c04(chk):
    quick = chk.tier == "quick"
    common = dict(view="CView", emit="EmitFinal", invariants=("RecoveredIsAcked", "IdleIsAcked", "ListedIsReadable"), properties=(), fs=False)
    # design: every workload of <= MaxOps calls x a kill before every persistent mutation x a second kill (also inside recovery);
    # conformance: the complete workloads TLC emits are executed in child processes that are killed before every mutation
    os.environ["VERIF_CRASH_ARGS"] = "-points=all -double=%d" % (1 if quick else 6)
    spec_stage(chk, "crash_3ops", "FsDbCrash.tla", dict(Keys=K2, MaxOps=3, MaxCrash=2, SwapRecordOrder=False, SplitCommit=False),
               exe="crash", sample=24 if quick else None, chunk=2, keep=lambda w: any(o["op"] == "set" for o in w), **common)
    spec_stage(chk, "crash_4ops", "FsDbCrash.tla", dict(Keys=K2, MaxOps=4, MaxCrash=1 if quick else 2, SwapRecordOrder=False, SplitCommit=False),
               exe="crash", sample=40 if quick else 1200, chunk=2,
               keep=lambda w: sum(1 for o in w if o["op"] in ("set", "del")) >= 2 and any(o["op"] in ("commit", "gc", "rollback") for o in w), **common)
    def multikey_commit(w):
        ks = {o["k"] for o in w if o["op"] in ("set", "del") and o["t"] == 1}
        return len(ks) >= 2 and any(o["op"] == "commit" for o in w)
    os.environ["VERIF_CRASH_ARGS"] = "-points=all -double=%d" % (1 if quick else 6)
    spec_stage(chk, "crash_multikey_commit", "FsDbCrash.tla", dict(Keys=K2, MaxOps=4 if quick else 5, MaxCrash=1, SwapRecordOrder=False, SplitCommit=False),
               exe="crash", sample=None if quick else 600, chunk=2, keep=multikey_commit, **common)
    if not quick:
        os.environ["VERIF_CRASH_ARGS"] = "-points=every:2 -double=3"
        spec_stage(chk, "crash_5ops", "FsDbCrash.tla", dict(Keys=K2, MaxOps=5, MaxCrash=1, SwapRecordOrder=False, SplitCommit=False),
                   exe="crash", sample=1500, chunk=8, keep=lambda w: any(o["op"] == "commit" for o in w) and sum(1 for o in w if o["op"] == "set") >= 2, **common)
        # vacuity guard: the two seeded design errors must be refuted by TLC on the same configuration
        wd = vlib.scratch("crv")
        try:
            for flag in ("SwapRecordOrder", "SplitCommit"):
                consts = dict(Keys=K2, MaxOps=5, MaxCrash=1, SwapRecordOrder=(flag == "SwapRecordOrder"), SplitCommit=(flag == "SplitCommit"))
                cfg = os.path.join(wd, flag + ".cfg")
                vlib.write_cfg(cfg, consts, view="CView", invariants=("RecoveredIsAcked", "IdleIsAcked", "ListedIsReadable"))
                r = vlib.run_tlc("FsDbCrash.tla", cfg, wd, timeout=1500)
                st = chk.add_tlc("seeded_design_error_" + flag, r, consts)
                st["refuted"] = bool(r.violation)
                if not r.violation:
                    raise Inconclusive("FsDbCrash.tla does not refute the seeded design error %s: the invariants are vacuous" % flag)
        finally:
            shutil.rmtree(wd, ignore_errors=True)
    os.environ.pop("VERIF_CRASH_ARGS", None)
    # a commit of more keys than any batch size one might think of, killed before each of its persistent mutations (Bulk.tla)
    spec_stage(chk, "crash_large_commit", "Bulk.tla", dict(Ns={1001} if quick else {1, 999, 1000, 1001, 2500, 5000}, Modes={"commitcrash"}, ChunkSize=1000, Variant="ascoded"),
               view=None, emit="Emit", invariants=("XReclaimed",), properties=(), exe="crash", fs=False, chunk=1)
    chk.assumptions += ["kill -9 semantics: the page cache survives; power loss and fsync are outside the property's quantifier",
                        "Badger's own commit is atomic; between two calls the client waits for the cleaner, as the specification does, or is killed right after the acknowledgement"]


def c05(chk):
    quick = chk.tier == "quick"
    # (a) one process, Close/Open at every position of transactional histories (FsDb.tla)
    re_ = has("reopen")
    l1_stage(chk, "reopen_inproc", dict(Keys=K2, MaxTx=1, MaxSteps=5, Levels={"RC", "RR"}, Ops=TXOPS | {"reopen", "gc"}),
             keep=re_, sample=4000 if quick else 60000)
    # (b) several instances, several processes (Reopen.tla)
    rule = set_rule()
    if rule == "max":
        # ... for ANY number of instances, keys, processes and steps: a TLAPS proof of LastWriteWins for the rule "max"; with the
        # rule of the code as found ("cas0") the proof must break
        tlaps_proof(chk, "proofs/ReopenProof.tla",
                    guard=("gseq' = IF gseq < m THEN m ELSE gseq            \\* SetRule \"max\"", "gseq' = IF gseq = 0 THEN m ELSE gseq"))
    for nm, consts, smp in (
            ("procs_2inst", dict(Inst={"A", "B"}, Keys=K1, MaxSteps=10 if quick else 11, MaxProcs=2 if quick else 3, SetRule=rule), 500 if quick else 6000),
            ("procs_1inst_2keys", dict(Inst={"A"}, Keys=K2, MaxSteps=7 if quick else 9, MaxProcs=3, SetRule=rule), 300 if quick else 4000)):
        spec_stage(chk, nm, "Reopen.tla", consts, view="View", emit="Emit", invariants=("XLastWriteWins",),
                   properties=(), exe="procs", keep=has("close", "newproc"), sample=smp, chunk=40)
    l0_traces(chk, "reopen_traces", 12 if quick else 120, 300, 5, 3, "set,del,begin,commit,rollback,gc,reopen")
    # hundreds of keys (more version records than any read-ahead window of the store) across reopenings: the read matrix is
    # taken after every reopen and at the end only
    specs = [dict(seed=vlib.seed() * 577 + i, steps=700 if quick else 1500, keys=350, maxtx=1, ops="set,del,reopen,gc", levels="RC", mode="inline",
                  obs="false", obsevery=10000, reopenafter=500 if quick else 900) for i in range(2 if quick else 8)]
    trace_stage(chk, "many_keys_reopen", "L0Trace.tla", dict(Keys=keyset(350), AllowedDev=set(allowed_dev())), specs)
    def restart_chain(b):
        ops = [x["op"] for x in b]
        if "newproc" not in ops:
            return False
        i = ops.index("newproc")
        later = ops[i + 1:]
        return any(o in ("set", "del") for o in later) and later and later[-1] == "open" and any(o in ("set", "del") for o in ops[:i])
    spec_stage(chk, "procs_restart_chain", "Reopen.tla", dict(Inst={"A"}, Keys=K1, MaxSteps=9 if quick else 11, MaxProcs=2 if quick else 3, SetRule=rule),
               view="View", emit="Emit", invariants=("XLastWriteWins",), properties=(), exe="procs", keep=restart_chain,
               sample=250 if quick else 4000, chunk=20)
    # (c) Close and Open after concurrent executions: what the clients were told last is what comes back
    progs = [p for p in programs_c06() if p["name"] in ("c06_two_writers", "c06_three_writers", "c06_tx_overwrite_autocommit_RC",
                                                        "c06_own_write_vs_autocommit_RC", "c06_four_clients", "c06_delete_set_keys")]
    conc_check(chk, progs, 60 if quick else 600, 10 if quick else 100, 2, family_owner="C06")
    chk.assumptions += ["processes end with all instances closed cleanly (kills are C04's quantifier)"]


def c18_collect(chk):
    """The collect rule at the level of the use case: after every collection of the bounded model the real roots hold
    exactly one content file per version the rule keeps (FsDb.tla GC / NCollect)."""
    quick = chk.tier == "quick"
    gc = has("gc")
    l1_stage(chk, "collect_exact_1key", dict(Keys=K1, MaxTx=2, MaxSteps=6 if quick else 8, Levels={"RC", "RR"}, Ops={"set", "del", "begin", "gc", "commit"}),
             keep=gc, sample=3000 if quick else 40000)
    l1_stage(chk, "collect_exact_2keys", dict(Keys=K2, MaxTx=1, MaxSteps=6 if quick else 7, Levels={"RR"}, Ops={"set", "begin", "gc", "rollback"}),
             keep=gc, sample=2000 if quick else 30000)


VL_INV = ("XMirrorInSync", "XSearchCorrect", "XCollectCorrect", "XSorted")


def c18(chk):
    quick = chk.tier == "quick"
    common = dict(view="View", invariants=VL_INV, properties=(), exe="vlist", fs=False, chunk=20000)
    spec_stage(chk, "machine", "VersionList.tla", dict(N=6 if quick else 8, MaxSteps=7 if quick else 9, Mode="machine"), emit="Emit", **common)
    spec_stage(chk, "subsets12", "VersionList.tla", dict(N=12, MaxSteps=1, Mode="subsets"), emit="Emit", **common)
    long_ = dict(common, invariants=("XMirrorInSync", "XSorted"))   # the search/collect theorems are checked on the small domains
    spec_stage(chk, "long_sim", "VersionList.tla", dict(N=400 if quick else 3000, MaxSteps=300 if quick else 2500, Mode="machine"), emit="EmitFinal",
               simulate=8 if quick else 40, depth=300 if quick else 2500, **long_)
    c18_collect(chk)
    # for lists of any length and any numbers: collecting up to a horizon leaves lookups at or after it unchanged (TLAPS)
    tlaps_proof(chk, "proofs/CollectProof.tla", guard=("x < y /\\ y <= h}", "x < y /\\ y <= h + 1}"))
    chk.assumptions += ["the collector's use of IterateBeforeSeq (yield, then PopFront) is driven as usecase/core/delete_old.go drives it",
                        "at the level of the use case the collected versions are counted by the content files left on disk once the cleaner has drained"]


def c19(chk):
    quick = chk.tier == "quick"
    common = dict(view=None, properties=(), exe="record", fs=False, chunk=5000)
    spec_stage(chk, "golden_records", "Record.tla", dict(Mode="records", MaxLen=0), emit="Emit",
               invariants=("RoundTrip", "ShortRejected"), sample=3000 if quick else None, **common)
    spec_stage(chk, "byte_strings", "Record.tla", dict(Mode="bytes", MaxLen=42), emit="Emit", invariants=(),
               simulate=60 if quick else 1500, depth=43, **common)
    fixture_stage(chk)
    # through the real store: the records of 1..1000 keys as persisted, after Close and Open
    exe = vlib.build("fixture")
    import subprocess
    for n in ((1, 99, 100, 101, 300) if quick else (1, 2, 50, 99, 100, 101, 102, 199, 200, 201, 300, 1000, 3000)):
        p = subprocess.run([exe, "-roundtrip", str(n)], capture_output=True, text=True, timeout=600, env=vlib.GOENV)
        out = p.stdout.strip().splitlines()
        last = json.loads(out[-1]) if out else {}
        chk.traces += 1
        chk.stages.append({"stage": "store_roundtrip_%d" % n, "keys_checked": last.get("keys", 0), "status": last.get("status")})
        if last.get("status") == "violation":
            chk.violation("persisted records across a reopen: " + last.get("detail", ""), {"keys": n, "detail": last})
        elif last.get("status") != "ok":
            raise Inconclusive("store round trip failed to run: %s %s" % (p.stdout[-500:], p.stderr[-500:]))
    chk.assumptions += ["the layout function of Record.tla is the release layout stated in the property (transcription)",
                        "sequence values are rebuilt from base-256 digits by positional value, not by a byte-order routine"]


def fixture_stage(chk):
    """A database directory written by the pinned revision must load to the recorded state."""
    import subprocess
    exe = vlib.build("fixture")
    fx = os.path.join(vlib.VERIF, "fixtures", "pinned_db")
    wd = vlib.scratch("fx")
    try:
        shutil.copytree(fx, os.path.join(wd, "fx"))
        p = subprocess.run([exe, "-check", os.path.join(wd, "fx")], capture_output=True, text=True, timeout=300, env=vlib.GOENV)
        out = p.stdout.strip().splitlines()
        last = json.loads(out[-1]) if out else {}
        chk.traces += 1
        chk.stages.append({"stage": "pinned_fixture", "keys_checked": last.get("keys", 0), "status": last.get("status")})
        if last.get("status") == "violation":
            chk.violation("database written by the pinned revision: " + last.get("detail", ""), {"fixture": fx, "detail": last})
        elif last.get("status") != "ok":
            raise Inconclusive("fixture check failed to run: %s %s" % (p.stdout[-500:], p.stderr[-500:]))
    finally:
        shutil.rmtree(wd, ignore_errors=True)


def c20(chk):
    quick = chk.tier == "quick"
    spec_stage(chk, "cases", "Config.tla", dict(Width=2 if quick else 3), view=None, emit="Emit", invariants=("Layering",),
               properties=(), exe="conf", fs=False, chunk=2000)
    chk.assumptions += ["settings interact only through error precedence and Valid, so all cases with at most %d settings away from 'absent' are enumerated" % (2 if quick else 3)]


# ------------------------------------------------------------------ concurrency (C06, C07, C08)

class Tags:
    def __init__(self):
        self.n = 0

    def next(self):
        self.n += 1
        return self.n


def O(op, t=0, k="", c=0, l=""):
    return {"op": op, "t": t, "k": k, "c": c, "l": l}


def programs_c07():
    progs = []
    for l1, l2 in (("RR", "RR"), ("RR", "SER"), ("SER", "SER")):
        for ws1, ws2 in ((["k1"], ["k1"]), (["k1", "k2"], ["k1"]), (["k1", "k2"], ["k2", "k1"]), (["k1"], ["k1", "k2"])):
            for early in (True, False):
                for writer in (False, True):
                    tg = Tags()
                    setup = [O("set", 0, "k1", tg.next()), O("set", 0, "k2", tg.next())]
                    a, b = [], []
                    tgt1, tgt2 = (setup, setup) if early else (a, b)
                    tgt1.append(O("begin", 1, l=l1))
                    tgt2.append(O("begin", 2, l=l2))
                    for k in ws1:
                        tgt1.append(O("set", 1, k, tg.next()))
                    for k in ws2:
                        tgt2.append(O("set", 2, k, tg.next()))
                    a.append(O("commit", 1))
                    b.append(O("commit", 2))
                    actors = [{"name": "A", "ops": a}, {"name": "B", "ops": b}]
                    if writer:
                        actors.append({"name": "W", "ops": [O("set", 0, "k1", tg.next())]})
                    progs.append({"name": "c07_%s_%s_%s_%s_%s%s" % (l1, l2, "".join(ws1), "".join(ws2), "early" if early else "late", "_w" if writer else ""),
                                  "family": "C07", "keys": ["k1", "k2"], "setup": setup, "actors": actors})
    # a database that has never been written to: the first commits (and an autocommit write) meet on a main store
    # nobody has used yet
    for lvl in ("RR", "SER"):
        for writer in (False, True):
            tg = Tags()
            setup = [O("begin", 1, l=lvl), O("set", 1, "k1", tg.next()), O("begin", 2, l=lvl), O("set", 2, "k1", tg.next())]
            actors = [{"name": "A", "ops": [O("commit", 1)]}, {"name": "B", "ops": [O("commit", 2)]}]
            if writer:
                actors.append({"name": "W", "ops": [O("set", 0, "k1", tg.next())]})
            progs.append({"name": "c07_fresh_%s%s" % (lvl, "_w" if writer else ""), "family": "C07", "keys": ["k1", "k2"], "setup": setup, "actors": actors})
    # three committers on one key
    tg = Tags()
    setup = [O("set", 0, "k1", tg.next())]
    for t in (1, 2, 3):
        setup += [O("begin", t, l="RR"), O("set", t, "k1", tg.next())]
    progs.append({"name": "c07_three", "family": "C07", "keys": ["k1", "k2"], "setup": setup,
                  "actors": [{"name": n, "ops": [O("commit", t)]} for n, t in (("A", 1), ("B", 2), ("C", 3))]})
    return progs


def programs_c08():
    progs = []
    for lr in ("RR", "SER"):
        for cl in ("RC", "RR"):
            for with_w in (False, True):
                for with_gc in (False, True):
                    for delete in (False, True):
                        tg = Tags()
                        setup = [O("set", 0, "k1", tg.next()), O("set", 0, "k2", tg.next()), O("begin", 1, l=cl),
                                 O("set", 1, "k1", tg.next()), O("del", 1, "k2") if delete else O("set", 1, "k2", tg.next())]
                        reader = [O("begin", 2, l=lr), O("get", 2, "k1"), O("get", 2, "k2"), O("get", 2, "k1"), O("get", 2, "k2"), O("keys", 2)]
                        actors = [{"name": "C", "ops": [O("commit", 1)]}, {"name": "R", "ops": reader}]
                        if with_w:
                            actors.append({"name": "W", "ops": [O("set", 0, "k1", tg.next()), O("set", 0, "k2", tg.next())]})
                        if with_gc:
                            actors.append({"name": "G", "ops": [O("gc")]})
                        progs.append({"name": "c08_%s_%s%s%s%s" % (lr, cl, "_w" if with_w else "", "_gc" if with_gc else "", "_del" if delete else ""),
                                      "family": "C08", "keys": ["k1", "k2"], "setup": setup, "actors": actors})
    # Begin racing with the collector: old versions exist, a snapshot begins while GC runs and an overwrite follows
    for lr in ("RR", "SER"):
        tg = Tags()
        setup = [O("set", 0, "k1", tg.next()), O("set", 0, "k1", tg.next())]
        progs.append({"name": "c08_begin_vs_gc_%s" % lr, "family": "C08", "keys": ["k1", "k2"], "setup": setup,
                      "actors": [{"name": "R", "ops": [O("begin", 2, l=lr), O("get", 2, "k1"), O("get", 2, "k1"), O("keys", 2)]},
                                 {"name": "W", "ops": [O("set", 0, "k1", tg.next())]},
                                 {"name": "G", "ops": [O("gc")]}]})
        # two snapshot readers of different ages
        tg = Tags()
        setup = [O("set", 0, "k1", tg.next()), O("begin", 1, l=lr), O("set", 0, "k1", tg.next())]
        progs.append({"name": "c08_two_ages_%s" % lr, "family": "C08", "keys": ["k1", "k2"], "setup": setup,
                      "actors": [{"name": "R1", "ops": [O("get", 1, "k1"), O("get", 1, "k1")]},
                                 {"name": "R2", "ops": [O("begin", 2, l=lr), O("get", 2, "k1"), O("get", 2, "k1")]},
                                 {"name": "W", "ops": [O("set", 0, "k1", tg.next())]},
                                 {"name": "G", "ops": [O("gc")]}]})
    return progs


def programs_c06():
    progs = []

    def add(name, setup, actors):
        progs.append({"name": "c06_" + name, "family": "C06", "keys": ["k1", "k2"], "setup": setup,
                      "actors": [{"name": n, "ops": ops} for n, ops in actors]})
    tg = Tags()
    add("two_writers", [O("set", 0, "k1", tg.next())],
        [("A", [O("set", 0, "k1", tg.next()), O("get", 0, "k1")]), ("B", [O("set", 0, "k1", tg.next()), O("get", 0, "k1")])])
    tg = Tags()
    add("writer_reader_gc", [O("set", 0, "k1", tg.next()), O("set", 0, "k1", tg.next())],
        [("A", [O("set", 0, "k1", tg.next())]), ("B", [O("get", 0, "k1"), O("get", 0, "k1"), O("keys", 0)]), ("G", [O("gc")])])
    tg = Tags()
    add("reader_gc_only", [O("set", 0, "k1", tg.next()), O("set", 0, "k1", tg.next()), O("set", 0, "k2", tg.next())],
        [("B", [O("get", 0, "k1"), O("keys", 0)]), ("G", [O("gc")])])
    tg = Tags()
    add("delete_set_keys", [O("set", 0, "k1", tg.next()), O("set", 0, "k2", tg.next())],
        [("A", [O("del", 0, "k1")]), ("B", [O("set", 0, "k1", tg.next())]), ("C", [O("keys", 0), O("get", 0, "k1")])])
    for lvl in ("RC", "RU"):
        tg = Tags()
        add("tx_commit_vs_reader_%s" % lvl, [O("set", 0, "k1", tg.next())],
            [("A", [O("begin", 1, l=lvl), O("set", 1, "k1", tg.next()), O("set", 1, "k2", tg.next()), O("commit", 1)]),
             ("B", [O("get", 0, "k1"), O("get", 0, "k2"), O("keys", 0)]), ("G", [O("gc")])])
        tg = Tags()
        add("tx_rollback_vs_ru_%s" % lvl, [O("set", 0, "k1", tg.next())],
            [("A", [O("begin", 1, l=lvl), O("set", 1, "k1", tg.next()), O("rollback", 1)]),
             ("B", [O("begin", 2, l="RU"), O("get", 2, "k1"), O("get", 2, "k1"), O("commit", 2)])])
        tg = Tags()
        add("two_tx_same_key_%s" % lvl, [O("set", 0, "k1", tg.next())],
            [("A", [O("begin", 1, l=lvl), O("set", 1, "k1", tg.next()), O("get", 1, "k1"), O("commit", 1)]),
             ("B", [O("begin", 2, l=lvl), O("set", 2, "k1", tg.next()), O("get", 2, "k1"), O("commit", 2)]),
             ("C", [O("get", 0, "k1")])])
        tg = Tags()
        add("tx_overwrite_autocommit_%s" % lvl, [O("set", 0, "k1", tg.next()), O("begin", 1, l=lvl), O("set", 1, "k1", tg.next()), O("set", 1, "k1", tg.next())],
            [("A", [O("commit", 1)]), ("B", [O("set", 0, "k1", tg.next()), O("get", 0, "k1")]), ("G", [O("gc")])])
    for lvl in ("RC", "RU"):
        # an autocommit writer racing with the own write and the reads of an open transaction
        tg = Tags()
        add("own_write_vs_autocommit_%s" % lvl, [O("set", 0, "k1", tg.next()), O("begin", 1, l=lvl)],
            [("A", [O("set", 0, "k1", tg.next())]), ("B", [O("set", 1, "k1", tg.next()), O("get", 1, "k1"), O("get", 1, "k1"), O("commit", 1)]),
             ("C", [O("get", 0, "k1")])])
    tg = Tags()
    add("three_writers", [O("set", 0, "k1", tg.next())],
        [("A", [O("set", 0, "k1", tg.next())]), ("B", [O("set", 0, "k1", tg.next())]), ("C", [O("set", 0, "k1", tg.next()), O("get", 0, "k1")])])
    tg = Tags()
    add("four_clients", [O("set", 0, "k1", tg.next())],
        [("A", [O("set", 0, "k1", tg.next())]), ("B", [O("del", 0, "k1")]), ("C", [O("get", 0, "k1")]), ("D", [O("keys", 0)])])
    tg = Tags()
    add("begin_commit_gc", [O("set", 0, "k1", tg.next()), O("set", 0, "k1", tg.next())],
        [("A", [O("begin", 1, l="RC"), O("get", 1, "k1"), O("set", 1, "k1", tg.next()), O("commit", 1)]), ("G", [O("gc"), O("gc")])])
    return progs


def programs_free():
    """Programs for the uncontrolled (free-running) executions, inline and through the gRPC client, with contents of up
    to 150 000 bytes. While defects were recorded as known findings they avoided what those need; with all of them
    repaired the last programs bring snapshot transactions, the collector and rollbacks in."""
    progs = []

    def add(name, setup, actors):
        progs.append({"name": "free_" + name, "family": "C06", "keys": ["k1", "k2"], "setup": setup,
                      "actors": [{"name": n, "ops": ops} for n, ops in actors]})
    tg = Tags()
    add("downloads", [O("set", 0, "k1", 4), O("set", 0, "k2", 5)],
        [("A", [O("get", 0, "k1"), O("get", 0, "k2"), O("get", 0, "k1")]), ("B", [O("get", 0, "k2"), O("get", 0, "k1"), O("get", 0, "k2")]),
         ("C", [O("get", 0, "k1"), O("get", 0, "k2")]), ("D", [O("set", 0, "k1", 10), O("set", 0, "k2", 11)])])
    # many overlapping reads of contents of 150 000 bytes (several flow-control windows when they travel over gRPC)
    add("downloads_heavy", [O("set", 0, "k1", 5), O("set", 0, "k2", 11)],
        [(n, [O("get", 0, k), O("get", 0, j), O("get", 0, k), O("get", 0, j)]) for n, k, j in
         (("A", "k1", "k2"), ("B", "k2", "k1"), ("C", "k1", "k2"), ("D", "k2", "k1"), ("E", "k1", "k2"), ("F", "k2", "k1"), ("G", "k1", "k2"), ("H", "k2", "k1"))])
    add("writers", [O("set", 0, "k1", 3)],
        [("A", [O("set", 0, "k1", 16), O("get", 0, "k1")]), ("B", [O("set", 0, "k1", 17), O("get", 0, "k1")]),
         ("C", [O("set", 0, "k1", 9), O("keys", 0), O("get", 0, "k1")])])
    for lvl in ("RC", "RU"):
        add("tx_%s" % lvl, [O("set", 0, "k1", 4)],
            [("A", [O("begin", 1, l=lvl), O("set", 1, "k1", 22), O("set", 1, "k2", 23), O("get", 1, "k1"), O("commit", 1)]),
             ("B", [O("get", 0, "k1"), O("get", 0, "k2"), O("get", 0, "k1")]), ("C", [O("set", 0, "k2", 28), O("keys", 0)])])
    # a transaction with a large store ends (its store goes back to the pool) while small transactions begin, write and
    # read their own writes
    ballast = []
    for t in (1, 2, 7, 8):
        ballast += [O("begin", t, l="RC"), O("fill", t, c=300), O("rollback", t)]
    add("big_store_recycled", [O("set", 0, "k1", 3)],
        [("A", ballast),
         ("B", [O("begin", 3, l="RC"), O("set", 3, "k1", 40), O("get", 3, "k1"), O("commit", 3), O("begin", 4, l="RC"), O("set", 4, "k2", 41), O("get", 4, "k2"), O("commit", 4)]),
         ("C", [O("begin", 5, l="RC"), O("set", 5, "k2", 46), O("get", 5, "k2"), O("rollback", 5), O("begin", 6, l="RC"), O("set", 6, "k2", 47), O("get", 6, "k2"), O("rollback", 6)]),
         ("D", [O("get", 0, "k1"), O("get", 0, "k2")]),
         ("E", [O("churn", c=150)]), ("F", [O("churn", c=150)])])
    if not [f for f in vlib.known_findings().get("findings", []) if f.get("schedule")]:
        for lvl in ("RR", "SER"):
            add("snapshot_commit_gc_%s" % lvl, [O("set", 0, "k1", 3), O("set", 0, "k2", 4)],
                [("A", [O("begin", 1, l="RC"), O("set", 1, "k1", 52), O("set", 1, "k2", 53), O("commit", 1)]),
                 ("R", [O("begin", 2, l=lvl), O("get", 2, "k1"), O("get", 2, "k2"), O("get", 2, "k1"), O("get", 2, "k2"), O("commit", 2)]),
                 ("W", [O("set", 0, "k1", 58), O("get", 0, "k1")]),
                 ("G", [O("gc"), O("gc")])])
        add("ru_vs_rollback_gc", [O("set", 0, "k1", 3)],
            [("A", [O("begin", 1, l="RC"), O("set", 1, "k1", 64), O("rollback", 1)]),
             ("B", [O("begin", 2, l="RU"), O("get", 2, "k1"), O("get", 2, "k1"), O("commit", 2)]),
             ("C", [O("set", 0, "k1", 70), O("get", 0, "k1"), O("keys", 0)]),
             ("G", [O("gc")])])
    add("delete_recreate", [O("set", 0, "k1", 5), O("set", 0, "k2", 2)],
        [("A", [O("del", 0, "k1"), O("set", 0, "k1", 34)]), ("B", [O("get", 0, "k1"), O("keys", 0), O("get", 0, "k1")]),
         ("C", [O("del", 0, "k2"), O("keys", 0)]), ("D", [O("get", 0, "k2"), O("get", 0, "k1")])])
    return progs


def conc_check(chk, programs, dfs_runs, rnd_runs, preempt, family_owner=None, sched_mode=False, free=None):
    """Executes the programs under the controlled scheduler (all schedules up to the preemption bound, capped, plus
    seeded random ones), then lets TLC decide whether every recorded history is linearizable w.r.t. the promise."""
    if sched_mode:
        execs = vlib.run_conc(programs, mode="sched", runs=1, preempt=0)
    else:
        execs = vlib.run_conc(programs, mode="dfs", runs=dfs_runs, preempt=preempt)
        execs += vlib.run_conc(programs, mode="random", runs=rnd_runs)
    if free:
        fprogs, fruns = free
        for client in ("inline", "external"):
            execs += vlib.run_conc(fprogs, mode="free", runs=fruns, extra=["-client", client])
        programs = list(programs) + list(fprogs)
    by_outcome = {}
    hist, meta = [], []
    for e in execs:
        by_outcome[e["outcome"]] = by_outcome.get(e["outcome"], 0) + 1
        if e["outcome"] in ("deadlock", "panic", "crash", "reopen"):
            own = family_owner or "C06"
            if e["outcome"] == "reopen" and chk.prop == "C05":
                own = "C05"   # what Close and Open make of a concurrent execution belongs to C05 as much as to C06
            desc = "%s of the real code in program %s: %s" % (e["outcome"], e.get("program"), (e.get("detail") or "")[:800])
            if own == chk.prop:
                chk.violation(desc, {"execution": {k: e.get(k) for k in ("program", "mode", "seed", "decisions", "gates", "detail")}})
            else:
                chk.out_of_scope[own] = chk.out_of_scope.get(own, 0) + 1
            continue
        if e["outcome"] == "stuck" and "not parked" in (e.get("detail") or ""):
            # the execution did not follow the enumerated prefix (a goroutine of the code showed up at another moment)
            by_outcome["diverged"] = by_outcome.get("diverged", 0) + 1
            continue
        if e["outcome"] == "stuck" or (e["outcome"] == "error" and "did not become quiet" in (e.get("detail") or "")):
            # the scheduler gave up waiting for quiescence: a loaded machine, never a verdict; a few are tolerated
            by_outcome["unsettled"] = by_outcome.get("unsettled", 0) + 1
            if by_outcome["unsettled"] > max(5, len(execs) // 50):
                raise Inconclusive("%d executions did not settle, e.g. %s: %s" % (by_outcome["unsettled"], e.get("program"), e.get("detail")))
            continue
        if e["outcome"] != "ok":
            raise Inconclusive("execution of %s ended as %s: %s" % (e.get("program"), e["outcome"], e.get("detail")))
        hist.append(e["history"])
        meta.append(e)
        # binding of FsDbConc.tla: what every actor got in the real execution is what the model says for this schedule
        exp = next((p.get("expect") for p in programs if p["name"] == e["program"] and "expect" in p), None)
        if exp is not None:
            calls = {x["id"]: x for x in e["history"] if x["e"] == "call"}
            got = {}
            for x in e["history"]:
                if x["e"] != "ret" or calls[x["id"]]["a"] in ("setup", "final"):
                    continue
                c = calls[x["id"]]
                if c["op"] == "get":
                    v = (x["vs"] or [0])[0] if x["res"] == "ok" else 0
                    v = 100 if 100 < v < 200 else 200 if 200 < v < 300 else v
                    got.setdefault(c["a"], []).append(v if c["a"] == "A" else {"k": int(c["k"][1:]), "v": v})
                elif c["op"] in ("commit", "set"):
                    got.setdefault(c["a"], []).append(x["res"])
            for a, want in exp.items():
                if a != "G" and got.get(a, []) != want:
                    chk.drift += 1
    st, tr, rej = vlib.linearise(hist, dict(Keys={"k1", "k2"}, AllowedDev=set(allowed_dev())))
    chk.states += st
    chk.transitions += tr
    chk.traces += len(hist)
    levels = {}
    n_known = {}
    for hi, ei in rej:
        e = meta[hi]
        h = e["history"]
        ev = h[ei]
        calls = {x["id"]: x for x in h if x["e"] == "call"}
        lv = {x["t"]: x["l"] for x in h if x["e"] == "call" and x["op"] == "begin"}
        c = calls.get(ev.get("id"), ev)
        snap = lv.get(c.get("t")) in ("RR", "SER")
        if c.get("op") == "commit" and snap:
            own = "C07"
        elif c.get("op") in ("get", "keys", "begin") and snap:
            own = "C08"
        else:
            own = "C06"
        if family_owner:
            own = family_owner
        sig = known_schedule(e, own, c, ev)
        desc = "history of program %s (schedule %s) is not linearizable w.r.t. the promise at event %d: %s %s t=%s k=%s returned %s %s" % (
            e["program"], e["mode"], ei, c.get("a"), c.get("op"), c.get("t"), c.get("k"), ev.get("res"), ev.get("vs") or ev.get("ks") or "")
        if own != chk.prop:
            chk.out_of_scope[own] = chk.out_of_scope.get(own, 0) + 1
        elif sig:
            chk.known[sig] = chk.known.get(sig, 0) + 1
        else:
            chk.violation(desc, {"program": e["program"], "history": h, "gates": e["gates"], "decisions": e["decisions"], "event": ei})
    chk.stages.append({"stage": "concurrent_executions", "programs": len(programs), "executions": len(execs), "outcomes": by_outcome,
                       "histories_linearised": len(hist), "rejected": len(rej), "preemption_bound": preempt})
    if hist and len(chk.samples) < 3:
        chk.samples.append({"program": meta[0]["program"], "history": meta[0]["history"][:24], "gates": meta[0]["gates"][:40]})


def _unstable_reread(h):
    """Some transaction read one key twice, without writing it in between, and got two different answers."""
    calls = {x["id"]: x for x in h if x["e"] == "call"}
    last = {}
    for x in h:
        if x["e"] != "ret":
            continue
        c = calls.get(x["id"])
        if not c or not c.get("t"):
            continue
        if c["op"] in ("set", "del"):
            last.pop((c["t"], c["k"]), None)
        elif c["op"] == "get":
            val = (x.get("res"), tuple(x.get("vs") or []))
            if last.setdefault((c["t"], c["k"]), val) != val:
                return True
    return False


# what the recorded defect looks like to the caller, besides the schedule that produces it: a different failure
# under the same schedule is not the recorded finding
OUTCOME_SIGNATURES = {
    # H4: a fractured snapshot -- but a stable one
    "begin-between-commit-draws": lambda h, c, ev: c.get("op") in ("get", "keys") and not _unstable_reread(h),
    # H5: the snapshot lost a version to the collector: a read of a key that had a value answers not-found / omits it
    "begin-unregistered-during-gc": lambda h, c, ev: (c.get("op") == "get" and ev.get("res") == "notfound") or c.get("op") == "keys",
    # H6: the same answer, for any reader overtaken by the cleanup
    "get-overtaken-by-cleanup": lambda h, c, ev: (c.get("op") == "get" and ev.get("res") == "notfound") or c.get("op") == "keys",
}


def known_schedule(e, own, c=None, ev=None):
    """Recognises the recorded defects by the specific schedule that produces them and by what the caller gets
    (known_findings.json)."""
    listed = {f["signature"] for f in vlib.known_findings().get("findings", []) if f.get("property") == own and f.get("schedule")}
    gates = e.get("gates", [])
    for sig in listed:
        if SCHEDULE_SIGNATURES.get(sig, lambda g: False)(gates):
            if c is not None and not OUTCOME_SIGNATURES.get(sig, lambda h, c, ev: True)(e.get("history", []), c, ev or {}):
                continue
            return sig
    return None


def _execs(gates):
    """A gate entry records the ARRIVAL of an actor at a point: what the point guards executes when the actor is
    released, i.e. just before its next arrival. Returns [(actor, point, arrival index, execution position)]."""
    nxt = {}
    out = []
    for i in range(len(gates) - 1, -1, -1):
        a, p = gates[i].split("@", 1)
        out.append((a, p, i, nxt.get(a, len(gates)) - 0.5))
        nxt[a] = i
    out.reverse()
    return out


def _sig_begin_between_commit_draws(gates):
    # H4: a snapshot Begin draws its number strictly between the first and the last publishing draw of a commit
    ex = _execs(gates)
    phase2 = {}
    for a, p, i, x in ex:
        if p == "utx.between":
            phase2[a] = []
        elif p == "seq.next" and a in phase2 and phase2[a] is not None:
            phase2[a].append(x)
        elif p == "utx.unlink" and a in phase2 and phase2[a] is not None:
            phase2[a] = tuple(phase2[a])
    draws = {a: list(v) for a, v in phase2.items() if v}
    inbegin = set()
    for a, p, i, x in ex:
        if p == "begin.enter":
            inbegin.add(a)
        elif p == "seq.next" and a in inbegin:
            inbegin.discard(a)
            for b, d in draws.items():
                if b != a and len(d) >= 2 and d[0] < x < d[-1]:
                    return True
    return False


def _sig_begin_unregistered_during_gc(gates):
    # H5: the collector read an empty registry and uses a fresh horizon, while a snapshot Begin that drew its number
    # before that horizon registers only after the registry was read
    ex = _execs(gates)
    gcs = []
    cur = {}
    for a, p, i, x in ex:
        if p == "reg.oldest":
            cur[a] = {"read": x}
        elif p == "seq.next" and a in cur and "draw" not in cur[a]:
            cur[a]["draw"] = x
        elif p == "gc.horizon" and a in cur:
            if "draw" in cur[a]:
                gcs.append((a, cur[a]["read"], cur[a]["draw"]))
            del cur[a]
    begins = []
    st = {}
    for a, p, i, x in ex:
        if p == "begin.enter":
            st[a] = {}
        elif p == "seq.next" and a in st and "draw" not in st[a]:
            st[a]["draw"] = x
        elif p == "reg.store" and a in st:
            begins.append((a, st[a].get("draw", x), x))
            del st[a]
    for g, read, gdraw in gcs:
        for b, bdraw, breg in begins:
            if b != g and bdraw < gdraw and breg > read:
                return True
    return False


def _sig_get_overtaken_by_cleanup(gates):
    # H6: between the version lookup of a read and the opening of its content, the collector or the cleaner
    # deletes a content record or a content file
    ex = _execs(gates)
    windows = []
    start = {}
    for a, p, i, x in ex:
        if p in ("core.get.lookup", "core.getFiles.lookup"):
            start[a] = x                       # the (last) version lookup of the read
        elif p == "get.afterLookup" and a in start:
            windows.append((a, start[a], x))   # x: when the content record is looked up
        elif p == "get.afterCf" and a in start:
            windows.append((a, start.pop(a), x))   # x: when the content file is opened
        elif p == "keys.afterLookup" and a in start:
            windows.append((a, start.pop(a), x + 1000000))   # the record lookups of GetKeys follow this gate
    dels = [(a, x) for a, p, i, x in ex if p in ("clean.beforeRemove", "clean.beforeCfDelete")]
    for r, lo, hi in windows:
        for a, x in dels:
            if a != r and lo < x < hi:
                return True
    return False


SCHEDULE_SIGNATURES = {
    "begin-between-commit-draws": _sig_begin_between_commit_draws,
    "begin-unregistered-during-gc": _sig_begin_unregistered_during_gc,
    "get-overtaken-by-cleanup": _sig_get_overtaken_by_cleanup,
}


def l2_program(consts, name):
    """The client program (setup + actors) that corresponds to a configuration of FsDbConc.tla."""
    keys = sorted(consts["Keys"])
    old = consts["OldVersions"]
    setup = []
    for k in keys:
        for i in range(1, old + 1):
            setup.append(O("set", 0, "k%d" % k, 10 * k + i))
    actors = []
    for c, ws, lv, t, val in (("C1", consts["WS1"], consts["L1"], 1, 100), ("C2", consts["WS2"], consts["L2"], 2, 200)):
        if ws:
            setup.append(O("begin", t, l=lv))
    for c, ws, lv, t, val in (("C1", consts["WS1"], consts["L1"], 1, 100), ("C2", consts["WS2"], consts["L2"], 2, 200)):
        if ws:
            for k in sorted(ws):
                setup.append(O("set", t, "k%d" % k, val + k))
            actors.append({"name": c, "ops": [O("commit", t)]})
    if consts["WithR"]:
        reads = [O("get", 3, "k%d" % k) for k in keys] * 2
        actors.append({"name": "R", "ops": [O("begin", 3, l="RR")] + reads})
    if consts["WithW"]:
        actors.append({"name": "W", "ops": [O("set", 0, "k%d" % consts["WKey"], 300)]})
    if consts["WithA"]:
        actors.append({"name": "A", "ops": [O("get", 0, "k%d" % consts["WKey"])]})
    if consts["WithG"]:
        actors.append({"name": "G", "ops": [O("gc")]})
    return {"name": name, "family": "L2", "keys": ["k%d" % k for k in keys], "setup": setup, "actors": actors,
            "ignore": ["wpool.send.enter", "wpool.send.check", "wpool.send.direct", "wpool.worker.recv", "wpool.worker.done"]}


def l2_stage(chk, name, consts, sample=60):
    """FsDbConc.tla (code grain): TLC checks C06/C07/C08 on every interleaving of the gate-to-gate segments; every
    counterexample and a sample of the complete schedules are replayed step by step on the real code, whose history is
    then judged (linearisation against the promise; recorded defects are recognised by their schedule)."""
    wd = vlib.scratch("l2")
    try:
        cfg = os.path.join(wd, name + ".cfg")
        vlib.write_cfg(cfg, consts, view="View", action_constraint="EmitEndA",
                       invariants=("XFirstCommitterWins", "XConsistentSnapshot", "XAtomicRead", "DesignHypotheses"))
        emitted = os.path.join(wd, "emitted.ndjson")
        r = vlib.run_tlc("FsDbConc.tla", cfg, wd, timeout=1500, emit_to=emitted, extra_args=("-continue",))
        st = chk.add_tlc("l2_" + name, r, consts)
        scheds = [json.loads(c)[0] for c in r.cex]
        st["design_counterexamples"] = len(scheds)
        rnd = random.Random(vlib.seed() * 31 + len(chk.stages))
        full = [json.loads(l)[0] for l in open(emitted) if l.strip()]
        if len(full) > sample:
            full = rnd.sample(full, sample)
        progs = []
        for i, sc in enumerate(scheds[:20] + full):
            p = l2_program(consts, "%s_%d" % (name, i))
            p["schedule"] = sc["sched"]
            p["family"] = "L2cex" if i < len(scheds[:20]) else "L2"
            p["expect"] = sc["res"]
            progs.append(p)
        if progs:
            conc_check(chk, progs, 1, 0, 0, sched_mode=True)
        st["schedules_replayed"] = len(progs)
    finally:
        shutil.rmtree(wd, ignore_errors=True)


L2_BASE = dict(Keys={1, 2}, WS1=set(), WS2=set(), L1="RC", L2="RR", WithR=False, WithW=False, WithA=False, WithG=False, WKey=1, OldVersions=1,
               RangeDraw=bool([f for f in vlib.known_findings().get("fixed", []) if f.get("signature") == "begin-between-commit-draws"]),
               ContentGuard=bool([f for f in vlib.known_findings().get("fixed", []) if f.get("signature") == "get-overtaken-by-cleanup"]),
               HorizonLock=bool([f for f in vlib.known_findings().get("fixed", []) if f.get("signature") == "begin-unregistered-during-gc"]))


def c06(chk):
    quick = chk.tier == "quick"
    l2_stage(chk, "reader_writer_gc", dict(L2_BASE, WithW=True, WithA=True, WithG=True, OldVersions=2))
    conc_check(chk, programs_c06(), 160 if quick else 1500, 16 if quick else 200, 2 if quick else 3,
               free=(programs_free(), 12 if quick else 300))


def c07(chk):
    quick = chk.tier == "quick"
    # the design for any number of transactions and keys: test and publication in one critical section => first committer wins (TLAPS)
    tlaps_proof(chk, "proofs/CommitProof.tla", guard=("Conflict(t) == \\E k \\in ws[t] : main[k] > bseq[t]", "Conflict(t) == \\E k \\in ws[t] : main[k] > bseq[t] + 1"))
    l2_stage(chk, "two_committers", dict(L2_BASE, WS1={1}, WS2={1}, L1="RR"))
    l2_stage(chk, "two_committers_2keys", dict(L2_BASE, WS1={1, 2}, WS2={2}, L1="RR"))
    l2_stage(chk, "committers_writer", dict(L2_BASE, WS1={1}, WS2={1}, L1="RR", WithW=True))
    conc_check(chk, programs_c07(), 60 if quick else 800, 12 if quick else 150, 2 if quick else 3)


def c08(chk):
    quick = chk.tier == "quick"
    if fixed_sig("begin-between-commit-draws") and fixed_sig("begin-unregistered-during-gc"):
        # the design as repaired, for any number of committers, snapshots and keys (TLAPS): all-or-none, stable views, the
        # collector's horizon below every open snapshot; a read that does not wait for the commit's lock breaks the proof
        tlaps_proof(chk, "proofs/SnapshotProof.tla", guard=("  /\\ sst[s] = \"open\" /\\ lock = \"free\"", "  /\\ sst[s] = \"open\""))
    l2_stage(chk, "begin_vs_commit", dict(L2_BASE, WS1={1, 2}, WithR=True))
    l2_stage(chk, "begin_vs_gc", dict(L2_BASE, WithR=True, WithW=True, WithG=True, OldVersions=2))
    conc_check(chk, programs_c08(), 60 if quick else 800, 12 if quick else 150, 2 if quick else 3,
               free=([p for p in programs_free() if "snapshot" in p["name"]], 12 if quick else 300))


def rw_variant():
    fixed = [f for f in vlib.known_findings().get("fixed", []) if f.get("signature") == "asyncrw-if-and-unlocked-close"]
    return "repaired" if fixed else "asfound"


def programs_c12():
    progs = []
    splits = ([0], [1], [3, 0, 4], [0, 5], [5, 0], [32767, 1, 1], [32768], [32769, 0, 1], [1, 32768, 0, 2], [0, 0], [65536, 1], [2048, 0, 2049])
    for i, w in enumerate(splits):
        tg = Tags()
        setup = [O("set", 0, "k1", tg.next())]
        cr = dict(O("create", 0, "k1", tg.next()), w=w)
        progs.append({"name": "c12_create_%d" % i, "family": "C12", "keys": ["k1", "k2"], "setup": setup,
                      "actors": [{"name": "A", "ops": [cr, O("get", 0, "k1")]}]})
        tg2 = Tags()
        setup2 = [O("set", 0, "k1", tg2.next()), O("begin", 1, l="RC")]
        cr2 = dict(O("create", 1, "k2", tg2.next()), w=w)
        progs.append({"name": "c12_create_tx_%d" % i, "family": "C12", "keys": ["k1", "k2"], "setup": setup2,
                      "actors": [{"name": "A", "ops": [cr2, O("get", 1, "k2"), O("commit", 1)]}, {"name": "B", "ops": [O("get", 0, "k1")]}]})
    return progs


def c12(chk):
    quick = chk.tier == "quick"
    var = rw_variant()
    # design + component conformance: every schedule of writer and storing goroutine for the write patterns of AsyncRW.tla
    spec_stage(chk, "pipe_schedules", "AsyncRW.tla", dict(PSet=set(range(1, 17)), CapSet={1, 2, 4} if not quick else {2, 4}, Variant=var),
               view=None, emit=None, emit_invariants=("EmitEnd",), invariants=("XConcatenation", "XNotStuck"), properties=(),
               exe="rwpipe", fs=False, chunk=300, sample=4000 if quick else None)
    if not quick:
        # liveness: Close returns on every fair behaviour
        wd = vlib.scratch("rwl")
        try:
            consts = dict(PSet={2, 6, 7, 10, 11, 13}, CapSet={2}, Variant=var)
            cfg = os.path.join(wd, "live.cfg")
            vlib.write_cfg(cfg, consts, spec="Spec", properties=("CloseReturns",))
            r = vlib.run_tlc("AsyncRW.tla", cfg, wd, timeout=1500)
            st = chk.add_tlc("pipe_liveness", r, consts)
            if r.violation:
                st["tlc_violation"] = r.violation[:1500]
                chk.extra.setdefault("design_counterexamples", []).append({"stage": "pipe_liveness", "text": r.violation[:3000]})
        finally:
            shutil.rmtree(wd, ignore_errors=True)
    # end to end: inline Create with real sizes (0, 1, copy-buffer multiples +-1) under controlled schedules
    # ... and the same programs with nobody holding the goroutines back, inline and through the gRPC client
    conc_check(chk, programs_c12(), 30 if quick else 400, 10 if quick else 120, 2, family_owner="C12",
               free=(programs_c12(), 6 if quick else 100))
    # a writer megabytes ahead of a storing side that runs out of space (SetRetry.tla scenarios through Create with 3 MiB more)
    os.environ["VERIF_FAULTS_BIGCREATE"] = "1"
    try:
        spec_stage(chk, "create_ahead_of_failing_store", "SetRetry.tla", dict(Roots={1, 2}, NChunks=2, Variant="repaired" if fixed_sig("nospace-partial-write-duplicated") else "asfound"),
                   view=None, emit="Emit", invariants=("XSuccessIsExact", "XContinuesElsewhere"), properties=(), exe="faults", fs=False, chunk=12,
                   sample=60 if quick else 600)
    finally:
        os.environ.pop("VERIF_FAULTS_BIGCREATE", None)
    # files held open for writing across other operations, several at once (FsDb.tla WOpen / WClose), both clients
    l1_stage(chk, "interleaved_creates", dict(Keys=K2, MaxTx=1, MaxSteps=6 if quick else 7, Levels={"RC"}, Ops={"set", "begin", "commit", "writer"}),
             mode="both", keep=has("wclose"), sample=1200 if quick else 20000)
    chk.assumptions += ["the component replay uses 1..4-byte buffers; the end-to-end stage uses the real 32 KiB copy buffer"]


def wp_variant():
    fixed = [f for f in vlib.known_findings().get("fixed", []) if f.get("signature") == "wpool-flusher-exit-window"]
    return "repaired" if fixed else "asfound"


WP_SCENARIOS = [
    dict(name="deferred_1w_4", workers=1, jobs=4, stoppers=0, runners=0, startRunning=True),
    dict(name="deferred_1w_5", workers=1, jobs=5, stoppers=0, runners=0, startRunning=True),
    dict(name="deferred_2w_7", workers=2, jobs=7, stoppers=0, runners=0, startRunning=True),
    dict(name="stop_vs_sends", workers=1, jobs=3, stoppers=1, runners=0, startRunning=True),
    dict(name="stop_vs_deferred", workers=1, jobs=5, stoppers=1, runners=0, startRunning=True),
    dict(name="two_stops", workers=1, jobs=1, stoppers=2, runners=0, startRunning=True),
    dict(name="stop_run_send", workers=1, jobs=2, stoppers=1, runners=1, startRunning=True),
    dict(name="send_before_run", workers=1, jobs=1, stoppers=0, runners=1, startRunning=False),
    dict(name="two_runs", workers=2, jobs=2, stoppers=0, runners=2, startRunning=False),
    dict(name="stop_before_run", workers=1, jobs=0, stoppers=1, runners=1, startRunning=False),
    dict(name="parent_cancel_then_stop", workers=1, jobs=2, stoppers=1, runners=0, cancellers=1, startRunning=True),
    dict(name="parent_cancel_stop_run", workers=1, jobs=1, stoppers=1, runners=1, cancellers=1, startRunning=True),
    # a pool that is used up to its deferred path, stopped, started and used up to its deferred path again
    dict(name="used_stopped_used_again", workers=1, jobs=8, stoppers=1, runners=1, startRunning=True, phased=4),
]


def wp_consts(sc, variant, ordered=False, jobs=None):
    return dict(NWorkers=sc["workers"], Jobs=set(range(1, (jobs or sc["jobs"]) + 1)), Stoppers=set(range(1, sc["stoppers"] + 1)),
                Runners=set(range(1, sc["runners"] + 1)), Cancellers=set(range(1, sc.get("cancellers", 0) + 1)),
                Variant=variant, StartRunning=sc["startRunning"], Ordered=ordered,
                SpuriousTimeout=True)


WP_SIGNATURES = {
    # signature -> predicate over the execution record
    "wpool-send-before-run": lambda e: e["outcome"] == "panic" and not e["scenario"]["startRunning"] and "Send" in (e.get("detail") or "") and "nil pointer" in (e.get("detail") or ""),
    "wpool-concurrent-stop": lambda e: e["outcome"] == "panic" and e["scenario"]["stoppers"] >= 2 and ("close of closed channel" in (e.get("detail") or "") or "unlock of unlocked" in (e.get("detail") or "")),
}


def c16(chk):
    quick = chk.tier == "quick"
    var = wp_variant()
    # ---- design: safety, liveness and panic freedom of WPool.tla on small configurations
    wd = vlib.scratch("wpd")
    try:
        inv = ("AtMostOnce", "NoPanic", "NoStartAfterStop", "StopWaitsForJobs", "NoStrandedJob", "NoStrandedAfterRestart", "NoOrphanRole")
        designs = [("deferred_3jobs", WP_SCENARIOS[0], 3), ("two_stops", WP_SCENARIOS[5], None), ("stop_vs_sends", WP_SCENARIOS[3], 2 if quick else 3),
                   ("send_before_run", WP_SCENARIOS[7], None), ("stop_run_send", WP_SCENARIOS[6], None), ("two_runs", WP_SCENARIOS[8], None),
                   ("parent_cancel_then_stop", WP_SCENARIOS[10], None)]
        if not quick:
            designs.append(("deferred_2workers", WP_SCENARIOS[2], 3))
        for name, sc, jobs in designs:
            consts = wp_consts(sc, var, ordered=True, jobs=jobs)
            cfg = os.path.join(wd, name + ".cfg")
            vlib.write_cfg(cfg, consts, invariants=inv)
            r = vlib.run_tlc("WPool.tla", cfg, wd, timeout=2400)
            st = chk.add_tlc("design_" + name, r, consts)
            if r.violation:
                st["tlc_violation"] = r.violation[:600]
                chk.extra.setdefault("design_counterexamples", []).append({"stage": name, "text": r.violation[:2500]})
        # vacuity guard: a seeded slip of the repair (the flusher keeps its role when it leaves a stopping pool) must be refuted
        consts = wp_consts(WP_SCENARIOS[6], "nounlock", ordered=True)
        cfg = os.path.join(wd, "guard.cfg")
        vlib.write_cfg(cfg, consts, invariants=("NoStrandedAfterRestart",))
        r = vlib.run_tlc("WPool.tla", cfg, wd, timeout=1500)
        st = chk.add_tlc("design_guard_nounlock", r, consts)
        st["seeded_slip_refuted"] = bool(r.violation)
        if not r.violation:
            raise Inconclusive("WPool.tla does not refute the seeded slip 'nounlock': NoStrandedAfterRestart is vacuous")
        if not quick:
            # liveness proper, on the smallest configuration that shows the deferred path
            consts = wp_consts(WP_SCENARIOS[0], var, ordered=True, jobs=2)
            cfg = os.path.join(wd, "live.cfg")
            vlib.write_cfg(cfg, consts, spec="Spec", properties=("EveryJobRuns", "SendReturns"))
            r = vlib.run_tlc("WPool.tla", cfg, wd, timeout=3000)
            st = chk.add_tlc("design_liveness_2jobs", r, consts)
            if r.violation:
                st["tlc_violation"] = r.violation[:600]
                chk.extra.setdefault("design_counterexamples", []).append({"stage": "liveness", "text": r.violation[:2500]})
    finally:
        shutil.rmtree(wd, ignore_errors=True)
    # ---- schedules found by TLC replayed on the real pool: the committed counterexample of the stranded-job window
    #      (found on WPool.tla with Variant = "asfound"), and in the thorough tier whatever TLC finds now on the
    #      replayable configuration (strict time-out, 5 jobs)
    fx = [json.loads(l) for l in open(os.path.join(vlib.VERIF, "fixtures", "wpool_h13_schedule.ndjson")) if l.strip()]
    sched_scen = list(fx)
    if not quick:
        wd = vlib.scratch("wpr")
        try:
            consts = dict(wp_consts(WP_SCENARIOS[1], var, ordered=True), SpuriousTimeout=False)
            cfg = os.path.join(wd, "replayable.cfg")
            vlib.write_cfg(cfg, consts, invariants=("AtMostOnce", "NoPanic", "NoStrandedJob"))
            r = vlib.run_tlc("WPool.tla", cfg, wd, timeout=3000)
            st = chk.add_tlc("design_replayable_5jobs", r, consts)
            if r.violation:
                st["tlc_violation"] = r.violation[:600]
                sch = wp_schedule_from_tlc(open(r.out_path).read())
                sched_scen.append(dict(WP_SCENARIOS[1], name="tlc_counterexample", schedule=sch))
        finally:
            shutil.rmtree(wd, ignore_errors=True)
    replayed = vlib.run_wprun(sched_scen, mode="random", runs=1)
    # ---- the real pool under the controlled scheduler
    execs = replayed + vlib.run_wprun(WP_SCENARIOS, mode="dfs", runs=150 if quick else 2500, preempt=2 if quick else 3)
    execs += vlib.run_wprun(WP_SCENARIOS, mode="random", runs=30 if quick else 400)
    kf = {f["signature"] for f in vlib.known_findings().get("findings", []) if f.get("property") == "C16"}
    outcomes = {}
    for e in execs:
        outcomes[e["outcome"]] = outcomes.get(e["outcome"], 0) + 1
        probs = list(e.get("problems") or [])
        if e["outcome"] in ("deadlock", "panic", "crash"):
            probs.append("%s: %s" % (e["outcome"], (e.get("detail") or "")[:700]))
        elif e["outcome"] == "stuck" and "prefix" not in (e.get("detail") or ""):
            # the scheduler gave up waiting for quiescence (goroutines runnable or in a system call for seconds: a loaded
            # machine, not a blocked call -- a blocked call is seen as such from its wait state). Never a verdict.
            outcomes["unsettled"] = outcomes.get("unsettled", 0) + 1
            continue
        if not probs:
            continue
        sig = None
        for k, pred in WP_SIGNATURES.items():
            if k in kf and pred(e):
                sig = k
        if sig is None and "wpool-flusher-exit-window" in kf and any("stranded" in p for p in probs) and len(probs) == 1 and _sig_flusher_window(e["events"]):
            sig = "wpool-flusher-exit-window"
        if sig:
            chk.known[sig] = chk.known.get(sig, 0) + 1
        else:
            chk.violation("worker pool, scenario %s (%s schedule): %s" % (e["scenario"]["name"], e["mode"], "; ".join(probs)),
                          {"scenario": e["scenario"], "events": e["events"], "decisions": e.get("decisions"), "executed": e.get("executed")})
    chk.traces += len(execs)
    chk.stages.append({"stage": "pool_executions", "scenarios": len(WP_SCENARIOS), "executions": len(execs), "outcomes": outcomes})
    if outcomes.get("unsettled", 0) > max(5, len(execs) // 50):
        raise Inconclusive("%d of %d pool executions did not settle (machine too loaded for the controlled scheduler)" % (outcomes["unsettled"], len(execs)))
    # ---- every recorded execution must be a behaviour of WPool.tla (binding; a rejection is drift, not a verdict)
    n_acc = n_rej = 0
    from concurrent.futures import ThreadPoolExecutor

    def validate(sc):
        traces = [e["events"] for e in execs if e["scenario"]["name"] == sc["name"] and e["outcome"] in ("ok", "panic", "deadlock") and e["events"]]
        if not traces:
            return sc, traces, None
        return sc, traces, vlib.validate_event_traces("WPoolTrace.tla", wp_consts(sc, var), traces, {"k": "reset", "id": 0, "p": ""},
                                                      invariants=("AtMostOnce", "NoStartAfterStop", "StopWaitsForJobs"))
    scen_all = {sc["name"]: sc for sc in WP_SCENARIOS + [x for x in sched_scen if x["name"] not in {y["name"] for y in WP_SCENARIOS}]}
    with ThreadPoolExecutor(max_workers=8) as pool:
        outs = list(pool.map(validate, list(scen_all.values())))
    for sc, traces, res in outs:
        if res is None:
            continue
        st, tr, acc, rej, inv = res
        for ti, name in inv:
            chk.violation("worker pool, scenario %s: the validated execution violates %s of WPool.tla" % (sc["name"], name), {"scenario": sc, "events": traces[ti]})
        chk.states += st
        chk.transitions += tr
        n_acc += acc
        n_rej += len(rej)
        chk.drift += len(rej)
        if rej and len(chk.extra.setdefault("rejected_traces", [])) < 5:
            ti, ei = rej[0]
            chk.extra["rejected_traces"].append({"scenario": sc["name"], "event_index": ei, "events": traces[ti][:ei + 1][-12:]})
    chk.stages.append({"stage": "pool_trace_validation", "module": "WPoolTrace.tla", "accepted": n_acc, "rejected_as_drift": n_rej})
    if execs and len(chk.samples) < 3:
        chk.samples.append({"scenario": execs[0]["scenario"], "events": execs[0]["events"][:40], "executed": execs[0].get("executed")})


def wp_schedule_from_tlc(txt):
    """Turns a TLC counterexample of WPool.tla into a schedule for cmd/wprun: an actor is stepped at its first action
    (effect or observation) after it arrived at a gate; background goroutines reach their first gate by themselves."""
    import re
    at, sch = {}, []
    for line in txt.splitlines():
        m = re.match(r"^State \d+: <(\w+)(?:\((\d+)\))?", line)
        if not m:
            continue
        a, i = m.group(1), m.group(2) or ""
        body = a[1:]
        if body.startswith(("Send", "Lazy")):
            actor = "S" + i
        elif body.startswith("Flusher"):
            actor = "F"
        elif body.startswith(("Worker", "Job")):
            actor = "W"
        elif body.startswith("Stop"):
            actor = "T" + i
        elif body.startswith("Run"):
            actor = "R" + i
        else:
            continue
        if actor not in at:
            at[actor] = actor[0] in "STR"
        if at[actor]:
            sch.append(actor)
            at[actor] = False
        if a.startswith("O"):
            at[actor] = True
    return sch


def _sig_flusher_window(events):
    # H13: a deferred Send fails the try-lock after the flusher has decided to leave (flusher.exit) and before it unlocked
    exiting = False
    for ev in events:
        if ev["k"] == "F" and ev["p"] == "wpool.flusher.exit":
            exiting = True
        elif ev["k"] == "F":
            exiting = False
        elif ev["k"] == "S" and ev["p"] == "wpool.lazy.tryfail" and exiting:
            return True
    return False


def apalache_inductive(chk, module, cinit, init, indinit, inv, guard=None, timeout=900):
    """Init => Inv and Inv /\\ Next => Inv' by Apalache (symbolic: constants left open by `cinit`). `guard` is a textual
    mutation of the module that must make the induction step fail (vacuity guard). A failure here is about the
    specification, never a verdict about the code: the check ends inconclusive."""
    import subprocess
    wd = vlib.scratch("apa")
    try:
        src = open(os.path.join(vlib.VERIF, "spec", module)).read()
        name = module[:-4]

        def run(mod, text, ini, length):
            with open(os.path.join(wd, mod + ".tla"), "w") as f:
                f.write(text.replace("MODULE " + name, "MODULE " + mod))
            t0 = time.time()
            p = subprocess.run(["apalache-mc", "check", "--cinit=" + cinit, "--init=" + ini, "--inv=" + inv, "--length=%d" % length,
                                "--out-dir=" + os.path.join(wd, "out"), mod + ".tla"], cwd=wd, capture_output=True, text=True, timeout=timeout)
            out = p.stdout + p.stderr
            ok = "EXITCODE: OK" in out
            err = "The outcome is: Error" in out
            return ok, err, round(time.time() - t0, 1), out[-600:]
        try:
            ok0, _, t0_, tail0 = run(name, src, init, 0)
            ok1, _, t1_, tail1 = run(name, src, indinit, 1)
        except (subprocess.TimeoutExpired, FileNotFoundError) as e:
            raise Inconclusive("apalache did not finish on %s: %r" % (module, e))
        st = {"stage": "apalache_inductive:" + module, "init_implies_inv": ok0, "inv_is_inductive": ok1, "wall_s": t0_ + t1_}
        if guard:
            a, b = guard
            assert a in src, "guard text not found in " + module
            _, gerr, tg, _ = run(name + "Guard", src.replace(a, b), indinit, 1)
            st["seeded_off_by_one_refuted"] = gerr
        chk.stages.append(st)
        if not (ok0 and ok1):
            raise Inconclusive("apalache does not confirm the inductive invariant of %s: %s %s" % (module, tail0[-200:], tail1[-200:]))
        if guard and not st["seeded_off_by_one_refuted"]:
            raise Inconclusive("apalache accepts a seeded off-by-one in %s: the inductive invariant is vacuous" % module)
    finally:
        shutil.rmtree(wd, ignore_errors=True)


def tlaps_proof(chk, relpath, guard=None, timeout=900):
    """The proof in spec/<relpath> must be accepted by tlapm (all obligations proved); with the textual mutation `guard`
    applied at least one obligation must fail (vacuity guard). About the specification only: never a verdict."""
    import subprocess
    import re
    wd = vlib.scratch("tlaps")
    try:
        src = open(os.path.join(vlib.VERIF, "spec", relpath)).read()
        name = os.path.basename(relpath)[:-4]

        def run(mod, text):
            with open(os.path.join(wd, mod + ".tla"), "w") as f:
                f.write(text.replace("MODULE " + name, "MODULE " + mod))
            p = subprocess.run(["tlapm", "--threads", "8", mod + ".tla"], cwd=wd, capture_output=True, text=True, timeout=timeout)
            out = p.stdout + p.stderr
            m = re.search(r"All (\d+) obligations? proved", out)
            return (int(m.group(1)) if m else 0), out[-500:]
        t0 = time.time()
        try:
            n, tail = run(name, src)
            st = {"stage": "tlaps:" + relpath, "obligations_proved": n}
            if guard:
                a, b = guard
                assert a in src, "guard text not found in " + relpath
                ng, _ = run(name + "Guard", src.replace(a, b))
                st["seeded_off_by_one_rejected"] = ng == 0
        except (subprocess.TimeoutExpired, FileNotFoundError) as e:
            raise Inconclusive("tlapm did not finish on %s: %r" % (relpath, e))
        st["wall_s"] = round(time.time() - t0, 1)
        chk.stages.append(st)
        if n == 0:
            raise Inconclusive("tlapm does not accept the proof %s: %s" % (relpath, tail[-300:]))
        if guard and not st["seeded_off_by_one_rejected"]:
            raise Inconclusive("tlapm accepts the proof %s with a seeded off-by-one: it proves nothing" % relpath)
    finally:
        shutil.rmtree(wd, ignore_errors=True)


def c17(chk):
    quick = chk.tier == "quick"
    # design: every interleaving of write / delete / reopen with a limit of 2 (the code clamps the limit to >= 100)
    wd = vlib.scratch("dirs")
    try:
        for roots, steps in (({1}, 9 if quick else 11), ({1, 2}, 7 if quick else 9)):
            consts = dict(Roots=roots, Limit=2, MaxDirs=5, MaxSteps=steps)
            cfg = os.path.join(wd, "dirs%d.cfg" % len(roots))
            vlib.write_cfg(cfg, consts, init="DInit", next_="DNext", invariants=("Bounded", "EveryRootOffers", "ActiveKnown"), properties=("RoomIsReused",))
            r = vlib.run_tlc("Dirs.tla", cfg, wd, timeout=1200)
            chk.add_tlc("dirs_design_%droots" % len(roots), r, consts)
            if r.violation:
                raise Inconclusive("Dirs.tla violates its own properties: " + r.violation[:400])
    finally:
        shutil.rmtree(wd, ignore_errors=True)
    # the bound for every limit: Apalache discharges the inductive invariant of DirsInd.tla with the limit symbolic
    apalache_inductive(chk, "DirsInd.tla", cinit="CInit", init="Init", indinit="IndInit", inv="IndInv",
                       guard=("Full == {d \\in active : cnt[d] >= Limit}", "Full == {d \\in active : cnt[d] > Limit}"))
    # ... and for every number of directories as well: a TLAPS proof of the same invariant
    tlaps_proof(chk, "proofs/DirsProof.tla", guard=("Full == {d \\in active : cnt[d] >= Limit}", "Full == {d \\in active : cnt[d] > Limit}"))
    # conformance: recorded walks of the roots validated against Dirs.tla with the real limit
    for nroots in (1, 2, 3):
        specs = [dict(seed=vlib.seed() * 7001 + i + 100 * nroots, steps=1200 if quick else 4000, keys=300 if i % 2 == 0 else 40, maxtx=2, roots=nroots,
                      obs="false", ops="set,del,gc,reopen,begin,commit,rollback",
                      # the same roots spelled with a trailing slash, a doubled slash, a /./ ; limits below the clamp
                      rootstyle=(i % 3 + 1) // 2, maxdir=[100, 100, 7, 0, 99][i % 5]) for i in range(3 if quick else 16)]
        trace_stage(chk, "walks_%droots" % nroots, "DirsTrace.tla",
                    dict(Roots=set(range(1, nroots + 1)), Limit=100, MaxDirs=0, MaxSteps=0), specs, fixed_owner="C17", batch=4, vtimeout=2400)
    # several directories full at a reopen: writes only, a reopen every few dozen calls
    for nroots in (1, 2):
        specs = [dict(seed=vlib.seed() * 911 + i + 50 * nroots, steps=(700 if quick else 2000) * nroots, keys=4, maxtx=1, roots=nroots,
                      obs="false", ops="set,reopen", reopenafter=450 * nroots, uniquekeys="true",
                      rootstyle=(i + nroots) % 2, maxdir=[1, 100, 50][(i + nroots - 1) % 3]) for i in range(1 if quick else 6)]
        trace_stage(chk, "fill_and_reopen_%droots" % nroots, "DirsTrace.tla",
                    dict(Roots=set(range(1, nroots + 1)), Limit=100, MaxDirs=0, MaxSteps=0), specs, fixed_owner="C17", batch=4, vtimeout=2400)
    # a directory fills up, loses half of its files to deletions and a collection, and must take files again
    for nroots in (1, 2):
        specs = [dict(seed=vlib.seed() * 1013 + i + 30 * nroots, steps=(800 if quick else 2400) * nroots, keys=4, maxtx=1, roots=nroots,
                      obs="false", ops="set,del,gc", waves=130 * nroots, rootstyle=(i + nroots + 1) % 2) for i in range(2 if quick else 6)]
        trace_stage(chk, "fill_drain_refill_%droots" % nroots, "DirsTrace.tla",
                    dict(Roots=set(range(1, nroots + 1)), Limit=100, MaxDirs=0, MaxSteps=0), specs, fixed_owner="C17", batch=4, vtimeout=2400)
    chk.assumptions += ["the effective directory limit is 100 (configured as 100, or as 0, 1, 7, 50, 99, which Storage.Valid clamps to 100); the design-level check uses a limit of 2",
                        "'used again' is judged on recorded walks by starvation: a directory with room passed over by more than 30 k consecutive writes (k directories with room) is not being offered (probability of that under the uniform choice < 1e-13)",
                        "which offered directory receives a file is random in the code and is read from the recorded walk"]


def fixed_sig(sig):
    return any(f.get("signature") == sig for f in vlib.known_findings().get("fixed", []))


def c10(chk):
    quick = chk.tier == "quick"
    sr_var = "repaired" if fixed_sig("nospace-partial-write-duplicated") else "asfound"
    up_var = "repaired" if fixed_sig("streamreader-error-as-eof") else "asfound"
    common = dict(view=None, emit="Emit", properties=(), exe="faults", fs=False, chunk=12)
    # storage side: no space left on any subset of the roots, fully or after a partial write, at every write call
    spec_stage(chk, "nospace_2roots", "SetRetry.tla", dict(Roots={1, 2}, NChunks=2 if quick else 3, Variant=sr_var),
               invariants=("XSuccessIsExact", "XContinuesElsewhere"), **common)
    spec_stage(chk, "nospace_3roots", "SetRetry.tla", dict(Roots={1, 2, 3}, NChunks=2, Variant=sr_var),
               invariants=("XSuccessIsExact", "XContinuesElsewhere"), sample=400 if quick else 6000, **common)
    # transport side: reader error, context cancellation, broken connection at every position of uploads of several lengths
    lens = {0, 1, 2, 3, 5} if quick else {0, 1, 2, 3, 4, 5, 6, 33, 40}
    for rep in range(2 if quick else 6):
        os.environ["VERIF_SEED_SHIFT"] = str(rep)
        spec_stage(chk, "upload_%d" % rep, "Upload.tla", dict(Lens=lens, Kinds={"none", "readerr", "cancel", "cut"}, Variant=up_var, SendVariant="repaired"),
                   invariants=("XNoTrace", "XNeverPartial"), **common)
    # a cut connection that the client re-dials at once: gRPC may replay what was sent so far on the new connection. Whether it
    # does depends on the moment of the cut, so these scenarios are repeated many times
    for rep in range(8 if quick else 60):
        os.environ["VERIF_SEED_SHIFT"] = str(100 + rep)
        spec_stage(chk, "cut_storm_%d" % rep, "Upload.tla", dict(Lens={1, 3, 5, 33}, Kinds={"cut"}, Variant=up_var, SendVariant="repaired"),
                   invariants=("XNoTrace", "XNeverPartial"), **common)
    os.environ.pop("VERIF_SEED_SHIFT", None)
    chk.assumptions += ["no-space is injected at the content file's Write (fully, or after half of the chunk was stored), not produced by a full file system",
                        "one unit of Upload.tla is 1024 bytes (the stream chunk is 2048), probed at the boundary and one byte to either side",
                        "an inline SetReader ignores its context: cancellation there is a successful complete write"]


def c11(chk):
    quick = chk.tier == "quick"
    auto = {"set", "del", "emptyset", "emptydel"}
    late = has("lset", "ldel", "lget", "lkeys", "lcommit", "lrollback")
    l1_stage(chk, "ext_auto", dict(Keys=K2, MaxTx=0, MaxSteps=4 if quick else 5, Levels={"RC"}, Ops=auto), mode="both")
    l1_stage(chk, "ext_tx", dict(Keys=K2, MaxTx=2, MaxSteps=4 if quick else 5, Levels={"RU", "RC", "RR", "SER"}, Ops=TXOPS | {"emptyset", "emptydel"}),
             mode="both", keep=has("begin"), sample=2500 if quick else 30000)
    l1_stage(chk, "ext_late_restart", dict(Keys=K1, MaxTx=2, MaxSteps=5, Levels={"RU", "RC", "RR"}, Ops={"set", "begin", "commit", "rollback", "late", "gc", "reopen"}),
             mode="both", keep=late, sample=1500 if quick else 20000)
    spec_stage(chk, "error_mapping", "ErrMap.tla", {}, view=None, emit="Emit", invariants=("RoundTrip", "JoinKeepsAPart"), properties=(),
               exe="errmap", fs=False, chunk=100)
    # a verdict the server gives before the upload is over (empty key on the header, no space after the first chunk),
    # reaching the client after any number of units
    up_var = "repaired" if fixed_sig("streamreader-error-as-eof") else "asfound"
    send_var = "repaired" if fixed_sig("stream-send-eof-hides-verdict") else "asfound"
    for rep in range(1 if quick else 4):
        os.environ["VERIF_SEED_SHIFT"] = str(rep)
        spec_stage(chk, "stream_verdict_%d" % rep, "Upload.tla",
                   dict(Lens={0, 1, 2, 3, 5, 33} if quick else {0, 1, 2, 3, 4, 5, 6, 33, 40, 67}, Kinds={"reject_emptykey", "reject_nospace"}, Variant=up_var, SendVariant=send_var),
                   view=None, emit="Emit", invariants=("XVerdictPreserved", "XNoTrace"), properties=(), exe="faults", fs=False, chunk=12)
        # reads while the connection is cut or the caller's context is cancelled: no error means the whole content
        for unit in (1, 64):
            spec_stage(chk, "download_%d_u%d" % (rep, unit), "Download.tla",
                       dict(Lens={0, 1, 2, 3, 4} if quick else {0, 1, 2, 3, 4, 5, 6, 9}, Kinds={"none", "cut", "cancel"}, Apis={"get", "reader"}, Variant=up_var, Unit=unit),
                       view=None, emit="Emit", invariants=("XReadIsExact", "Prefix"), properties=(), exe="faults", fs=False, chunk=12)
    # three files open for writing at once through one client (each an open stream), other calls in between
    three = lambda b: sum(1 for st in b if st["op"] == "wopen") >= 3  # noqa: E731
    l1_stage(chk, "three_open_files", dict(Keys=K2, MaxTx=0, MaxSteps=6 if quick else 7, Levels={"RC"}, Ops={"set", "writer"}),
             mode="both", keep=three, sample=400 if quick else 6000)
    # a reader that pauses for seconds in the middle of a large download (nothing fails: it must get everything)
    spec_stage(chk, "download_slow_reader", "Download.tla", dict(Lens={4, 6} if quick else {1, 4, 6, 9}, Kinds={"pause"}, Apis={"reader"}, Variant=up_var, Unit=64),
               view=None, emit="Emit", invariants=("XReadIsExact", "Prefix"), properties=(), exe="faults", fs=False, chunk=1,
               keep=lambda b: b[0]["p"] in (1, b[0]["len"] // 2))
    os.environ.pop("VERIF_SEED_SHIFT", None)
    # what travels in one message: long keys (header / unary request) and long listings (GetKeys answer); 1 unit = 256 KiB
    spec_stage(chk, "one_message", "Wire.tla",
               dict(KeyUnits={0, 1, 5, 15, 17} if quick else {0, 1, 3, 5, 8, 15, 16, 17}, MaxKeys=3 if quick else 4, Limit=16,
                    Variant="repaired" if fixed_sig("getkeys-above-message-limit") else "asfound"),
               view=None, emit="Emit", invariants=("XListingTravels", "XKeysTravel"), properties=(), exe="wire", fs=False, chunk=8,
               sample=60 if quick else 600)
    l0_traces(chk, "ext_traces", 12 if quick else 120, 300, 6, 4, "set,del,begin,commit,rollback,gc,emptyset,late,reopen", mode="external", big=True)
    l1_stage(chk, "ext_sim", dict(Keys=K3, MaxTx=3, MaxSteps=30, Levels={"RU", "RC", "RR", "SER"}, Ops=TXOPS | {"emptyset", "gc"}),
             mode="both", simulate=40 if quick else 800, depth=30)


PLANS = {"C10": c10, "C04": c04, "C16": c16, "C12": c12, "C06": c06, "C07": c07, "C08": c08, "C17": c17, "C18": c18, "C19": c19, "C20": c20, "C05": c05, "C11": c11, "C01": c01, "C02": c02, "C03": c03, "C09": c09, "C13": c13, "C14": c14}


def main():
    if len(sys.argv) < 3 or sys.argv[1] not in PLANS or sys.argv[2] not in ("quick", "thorough"):
        print("usage: vcheck.py <%s> <quick|thorough>" % "|".join(sorted(PLANS)))
        return 2
    prop, tier = sys.argv[1], sys.argv[2]
    os.environ.setdefault("VERIF_TIER", tier)
    return vlib.main_wrapper(PLANS[prop], prop, tier)


if __name__ == "__main__":
    sys.exit(main())
