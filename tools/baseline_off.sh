#!/bin/bash
# Runs the repository's baseline suite with the verif guard OFF and compares with BASELINE.json.
export GOFLAGS=-mod=mod GOPROXY=off GOSUMDB=off GOTOOLCHAIN=local
cd /repo || exit 2
out=$(mktemp /tmp/baseline.XXXXXX.json)
trap 'rm -f "$out"' EXIT
go test -mod=mod -json -vet=off -count=1 -timeout 25m ./... > "$out" 2>/dev/null
python3 - "$out" <<'PY'
import json,sys
passed=set(); failed=set()
for line in open(sys.argv[1]):
    try: e=json.loads(line)
    except Exception: continue
    if e.get('Test') and e.get('Action') in ('pass','fail'):
        (passed if e['Action']=='pass' else failed).add(e['Package']+'::'+e['Test'])
base=set(json.load(open('/root/.vp/BASELINE.json'))['stable_pass'])
missing=sorted(base-passed)
print(f"baseline={len(base)} passed_now={len(passed)} failed_now={len(failed)} missing={len(missing)}")
for m in missing[:20]: print("MISSING", m)
sys.exit(1 if missing else 0)
PY
