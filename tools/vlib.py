#!/usr/bin/env python3
"""Shared machinery of the fs_db verification checks: building the harness from /repo's
working tree, running TLC in scratch directories, extracting behaviours TLC emitted,
replaying them through the Go session workers, validating traces, writing evidence.

Standard library only."""
import hashlib
import json
import os
import random
import re
import shutil
import subprocess
import sys
import tempfile
import time

VERIF = os.path.dirname(os.path.dirname(os.path.abspath(__file__)))
SPEC = os.path.join(VERIF, "spec")
HARNESS = os.path.join(VERIF, "harness")
REPO = os.environ.get("VERIF_REPO", "/repo")      # registered checks always use /repo; the override serves mutant runs
ALT = REPO != "/repo"
_tag = hashlib.sha1(REPO.encode()).hexdigest()[:10]
BIN = os.path.join(VERIF, "bin") if not ALT else os.path.join(tempfile.gettempdir(), "vbin." + _tag)
EVID = os.path.join(VERIF, "evidence") if not ALT else os.path.join(tempfile.gettempdir(), "vevid." + _tag)
REPLAYS = os.path.join(VERIF, "replays") if not ALT else os.path.join(tempfile.gettempdir(), "vreplays." + _tag)
NPROC = max(2, min(16, os.cpu_count() or 4))

# the harness workers open and close thousands of databases, each with Badger's large arenas: collect early and cap the heap,
# or sixteen workers of a thorough run hold 8 GB of garbage each
GOENV = dict(os.environ, GOFLAGS="-mod=mod", GOPROXY="off", GOSUMDB="off", GOTOOLCHAIN="local",
             GOGC=os.environ.get("GOGC", "25"), GOMEMLIMIT=os.environ.get("GOMEMLIMIT", "3GiB"))


class Inconclusive(Exception):
    """The check could not reach a verdict (tool failure, timeout, dead driver): exit 2."""


def seed():
    try:
        return int(os.environ.get("VERIF_SEED", "1"))
    except ValueError:
        return 1


def scratch(prefix="vf"):
    base = "/dev/shm" if os.path.isdir("/dev/shm") and os.access("/dev/shm", os.W_OK) else tempfile.gettempdir()
    return tempfile.mkdtemp(prefix=prefix + ".", dir=base)


_built = set()


def build(cmd):
    """go build -tags verif of one harness command from the repository's current working tree."""
    if cmd in _built:
        return os.path.join(BIN, cmd)
    os.makedirs(BIN, exist_ok=True)
    out = os.path.join(BIN, cmd)
    args = ["go", "build", "-tags", "verif", "-o", out]
    if ALT:
        # same harness sources, fs_db resolved from another checkout (used to run checks against seeded changes)
        mod = os.path.join(BIN, "go.mod")
        txt = open(os.path.join(HARNESS, "go.mod")).read().replace("=> /repo", "=> " + REPO)
        open(mod, "w").write(txt)
        sums = set()
        for f in (os.path.join(HARNESS, "go.sum"), os.path.join(REPO, "go.sum")):
            if os.path.exists(f):
                sums.update(l for l in open(f).read().splitlines() if l.strip())
        open(os.path.join(BIN, "go.sum"), "w").write("\n".join(sorted(sums)) + "\n")
        args += ["-modfile", mod]
    else:
        merge_gosum()
    args.append("./cmd/" + cmd)
    p = subprocess.run(args, cwd=HARNESS, env=GOENV, stdout=subprocess.PIPE, stderr=subprocess.STDOUT, text=True, timeout=900)
    if p.returncode != 0:
        sys.stdout.write(p.stdout)
        raise Inconclusive("harness build failed for %s (does the repository still compile with -tags verif?)" % cmd)
    _built.add(cmd)
    return out


def merge_gosum():
    own = os.path.join(HARNESS, "go.sum")
    lines = set()
    for f in (own, os.path.join(REPO, "go.sum")):
        if os.path.exists(f):
            lines.update(l for l in open(f).read().splitlines() if l.strip())
    new = "\n".join(sorted(lines)) + "\n"
    if not os.path.exists(own) or open(own).read() != new:
        with open(own, "w") as fh:
            fh.write(new)


# ----------------------------------------------------------------------------- TLC

TLC_JAR_CP = "/opt/veriftools/tla/tla2tools.jar:/opt/veriftools/tla/CommunityModules-deps.jar"


class TlcResult:
    def __init__(self):
        self.generated = 0
        self.distinct = 0
        self.depth = 0
        self.violation = None       # text of the first violation
        self.error = None           # tool-level error
        self.out_path = None
        self.wall = 0.0
        self.coverage = {}
        self.behaviours_path = None
        self.cex = []               # behaviours (JSON text) printed by a violated X-property
        self.n_emitted = 0
        self.rc = 0


def write_cfg(path, constants, init="Init", next_="Next", view=None, action_constraint=None, invariants=(),
              properties=(), constraint=None, spec=None, deadlock=False, postcondition=None, overrides=None):
    lines = ["CONSTANTS"]
    for k, v in constants.items():
        lines.append("  %s = %s" % (k, tla_value(v)))
    for k, v in (overrides or {}).items():
        lines.append("  %s <- %s" % (k, v))
    if spec:
        lines.append("SPECIFICATION %s" % spec)
    else:
        lines.append("INIT %s" % init)
        lines.append("NEXT %s" % next_)
    if view:
        lines.append("VIEW %s" % view)
    if action_constraint:
        lines.append("ACTION_CONSTRAINT %s" % action_constraint)
    if constraint:
        lines.append("CONSTRAINT %s" % constraint)
    if invariants:
        lines.append("INVARIANTS " + " ".join(invariants))
    if properties:
        lines.append("PROPERTIES " + " ".join(properties))
    if postcondition:
        lines.append("POSTCONDITION %s" % postcondition)
    lines.append("CHECK_DEADLOCK %s" % ("TRUE" if deadlock else "FALSE"))
    with open(path, "w") as f:
        f.write("\n".join(lines) + "\n")


def tla_value(v):
    if isinstance(v, bool):
        return "TRUE" if v else "FALSE"
    if isinstance(v, int):
        return str(v)
    if isinstance(v, str):
        return '"%s"' % v
    if isinstance(v, (set, frozenset, list, tuple)):
        return "{" + ", ".join(tla_value(x) for x in sorted(v, key=str)) + "}"
    raise TypeError(v)


def run_tlc(module, cfg_path, workdir, workers=NPROC, simulate=None, depth=None, tseed=None, timeout=1800,
            coverage=False, extra_java=(), extra_args=(), heap=None, emit_to=None):
    """Runs TLC on a scratch copy of spec/.  `emit_to`: file that receives the behaviours printed
    through `PrintT(<<"B", ToJson(hist')>>)` (one JSON array per line, not deduplicated)."""
    res = TlcResult()
    for f in os.listdir(SPEC):
        if f.endswith(".tla"):
            shutil.copyfile(os.path.join(SPEC, f), os.path.join(workdir, f))
    if os.path.dirname(os.path.abspath(cfg_path)) != os.path.abspath(workdir):
        shutil.copyfile(cfg_path, os.path.join(workdir, os.path.basename(cfg_path)))
    tmpd = os.path.join(workdir, "jtmp")
    os.makedirs(tmpd, exist_ok=True)
    cmd = ["java", "-XX:+UseParallelGC", "-Xss64m", "-Djava.io.tmpdir=" + tmpd]
    if heap:
        cmd.append("-Xmx" + heap)
    cmd += list(extra_java)
    cmd += ["-cp", TLC_JAR_CP, "tlc2.TLC", "-workers", str(workers), "-metadir", os.path.join(workdir, "meta"),
            "-noGenerateSpecTE", "-config", os.path.basename(cfg_path)]
    if simulate:
        cmd += ["-simulate", "num=%d" % simulate]
        if depth:
            cmd += ["-depth", str(depth)]
    if tseed is not None:
        cmd += ["-seed", str(tseed)]
    if coverage:
        cmd += ["-coverage", "1"]
    cmd += list(extra_args)
    cmd.append(module)
    out_path = os.path.join(workdir, "tlc.%s.out" % os.path.basename(cfg_path))
    res.out_path = out_path
    t0 = time.time()
    emit_f = open(emit_to, "w") if emit_to else None
    try:
        with open(out_path, "w") as out:
            p = subprocess.Popen(cmd, cwd=workdir, stdout=subprocess.PIPE, stderr=subprocess.STDOUT, text=True, errors="replace")
            try:
                deadline = t0 + timeout
                for line in p.stdout:
                    if line.startswith('<<"B", '):
                        res.n_emitted += 1
                        if emit_f:
                            m = re.match(r'^<<"B", "(.*)">>$', line.rstrip("\n"))
                            if m:
                                emit_f.write(json.loads('"' + m.group(1) + '"') + "\n")
                        continue
                    if line.startswith('<<"X", '):
                        m = re.match(r'^<<"X", "(.*)">>$', line.rstrip("\n"))
                        if m and len(res.cex) < 20:
                            res.cex.append(json.loads('"' + m.group(1) + '"'))
                        continue
                    out.write(line)
                    if time.time() > deadline:
                        p.kill()
                        res.error = "timeout"
                        break
                p.wait(timeout=60)
            except Exception as e:  # noqa
                p.kill()
                res.error = "tlc driver: %r" % e
            res.rc = p.returncode
    finally:
        if emit_f:
            emit_f.close()
    res.wall = time.time() - t0
    txt = open(out_path).read()
    m = re.search(r"(\d+) states generated, (\d+) distinct states found", txt)
    if m:
        res.generated, res.distinct = int(m.group(1)), int(m.group(2))
    m = re.search(r"The depth of the complete state graph search is (\d+)", txt)
    if m:
        res.depth = int(m.group(1))
    if simulate and not m:
        m2 = re.search(r"The number of states generated: (\d+)", txt)
        if m2:
            res.generated = int(m2.group(1))
            res.distinct = res.distinct or res.generated
    if re.search(r"Error: (Invariant|Action property|Temporal properties|Deadlock|The postcondition)|is violated|was violated|Error: The behavior up to|Error: The following behavior constitutes a counter-example", txt):
        i = txt.find("Error:")
        res.violation = txt[i:i + 6000]
    elif "Error:" in txt or (res.rc not in (0,) and res.error is None and not m and not simulate):
        i = txt.find("Error:")
        res.error = res.error or ("tlc error: " + txt[i:i + 2000] if i >= 0 else "tlc exit %s" % res.rc)
    if coverage:
        for mm in re.finditer(r"<(\w+) line (\d+), col \d+ to line \d+, col \d+ of module (\w+)>: (\d+):(\d+)", txt):
            res.coverage["%s@%s:%s" % (mm.group(1), mm.group(3), mm.group(2))] = int(mm.group(5))
    return res


# ----------------------------------------------------------------------------- behaviours

def _hash_chunk(lines):
    finals, prefixes = [], set()
    for line in lines:
        steps = json.loads(line)
        h = hashlib.blake2b(digest_size=8)
        last = None
        for st in steps:
            if last is not None:
                prefixes.add(last)
            h.update(json.dumps(st, sort_keys=True).encode())
            last = h.digest()
        finals.append(last)
    return finals, prefixes


def dedup_prefixes(src, dst, keep=None, sample=None, rnd=None):
    """Drops every behaviour that is a proper prefix of another emitted behaviour, then applies the
    optional `keep(steps)` filter and an optional random sample. Returns (n_in, n_maximal, n_out)."""
    import multiprocessing
    with open(src) as f:
        lines = [l.strip() for l in f if l.strip()]
    n_in = len(lines)
    if n_in > 20000:
        step = max(2000, n_in // (NPROC * 4))
        chunks = [lines[i:i + step] for i in range(0, n_in, step)]
        with multiprocessing.Pool(NPROC) as pool:
            parts = pool.map(_hash_chunk, chunks)
    else:
        parts = [_hash_chunk(lines)]
    prefix_hashes = set()
    finals = []
    for fin, pre in parts:
        finals.extend(fin)
        prefix_hashes |= pre
    seen = set()
    maximal = []
    for hk, line in zip(finals, lines):
        if hk in prefix_hashes or hk in seen:
            continue
        seen.add(hk)
        maximal.append(line)
    out = maximal
    if keep:
        out = [l for l in out if keep(json.loads(l))]
    if sample is not None and len(out) > sample:
        out = (rnd or random.Random(seed())).sample(out, sample)
    with open(dst, "w") as f:
        for l in out:
            f.write(l + "\n")
    return n_in, len(maximal), len(out)


def load_ndjson(path):
    """Lines of a worker's output; a line cut short by the worker's death is dropped (the caller sees a missing result)."""
    out = []
    for l in open(path):
        if l.strip():
            try:
                out.append(json.loads(l))
            except ValueError:
                pass
    return out


def replay(beh_path, mode="inline", nproc=NPROC, base_seed=None, fs=True, timeout=3600, chunk=400, exe_name="session"):
    """Replays the behaviours of a file through `session` workers. Returns the list of result dicts."""
    exe = build(exe_name)
    n = sum(1 for _ in open(beh_path))
    if n == 0:
        return []
    base_seed = seed() if base_seed is None else base_seed
    base_seed += 101 * int(os.environ.get("VERIF_SEED_SHIFT", "0"))
    jobs = [(i, min(chunk, n - i)) for i in range(0, n, chunk)]
    results = []
    running = []
    t0 = time.time()
    outdir = scratch("replay")
    try:
        def start(job):
            frm, cnt = job
            outp = os.path.join(outdir, "r%d.ndjson" % frm)
            fh = open(outp, "w")
            extra = os.environ.get("VERIF_CRASH_ARGS", "").split() if exe_name == "crash" else []
            p = subprocess.Popen([exe, "-in", beh_path, "-mode", mode, "-seed", str(base_seed), "-from", str(frm),
                                  "-count", str(cnt), "-fs=%s" % ("true" if fs else "false")] + extra,
                                 stdout=fh, stderr=subprocess.PIPE,
                                 env=dict(GOENV, **{k: v for k, v in os.environ.items() if k.startswith("VERIF_FAULTS_")}))
            return (p, fh, outp, job)
        pending = list(jobs)
        while pending or running:
            if pending and sum(1 for r in results if r.get("status") in ("violation", "crash")) >= 40:
                pending = []     # more than enough disagreements to report: do not spend minutes per hang on the rest
            while pending and len(running) < nproc:
                running.append(start(pending.pop(0)))
            time.sleep(0.02)
            still = []
            for (p, fh, outp, job) in running:
                if p.poll() is None:
                    if time.time() - t0 > timeout:
                        p.kill()
                        raise Inconclusive("replay timed out")
                    still.append((p, fh, outp, job))
                    continue
                fh.close()
                err = p.stderr.read().decode(errors="replace")
                got = load_ndjson(outp)
                per = 2 if mode == "both" else 1
                if p.returncode == 3 and got:
                    # the worker left blocked goroutines behind (a detected hang) and asks for a fresh process
                    results.extend(got)
                    last = max(g["id"] for g in got)
                    hung = any((g.get("mismatch") or {}).get("kind") == "hang" for g in got)
                    # after an operation that never returned, the rest of this share is not replayed: every further hang
                    # costs a minute, and one is a verdict
                    if last + 1 < job[0] + job[1] and not hung:
                        pending.append((last + 1, job[0] + job[1] - last - 1))
                elif p.returncode != 0 or len(got) < job[1] * per:
                    # a worker died: the behaviour it was executing made the real code panic or hang
                    done_ids = {g["id"] for g in got}
                    crashed = [i for i in range(job[0], job[0] + job[1]) if i not in done_ids]
                    results.extend(got)
                    results.append({"id": crashed[0] if crashed else job[0], "mode": mode, "status": "crash",
                                    "error": err[-3000:], "rc": p.returncode})
                    # continue after the crashed behaviour
                    if crashed and crashed[0] + 1 < job[0] + job[1]:
                        pending.append((crashed[0] + 1, job[0] + job[1] - crashed[0] - 1))
                else:
                    results.extend(got)
            running = still
    finally:
        for (p, fh, outp, job) in running:
            try:
                p.kill()
            except Exception:
                pass
        shutil.rmtree(outdir, ignore_errors=True)
    return results


# ----------------------------------------------------------------------------- verdicts and evidence

def known_findings():
    p = os.environ.get("VERIF_KNOWN_FINDINGS") or os.path.join(VERIF, "known_findings.json")  # the override is for experiments only
    if not os.path.exists(p):
        return {"findings": [], "fixed": []}
    return json.load(open(p))


class Check:
    """Accumulates what one check run covered and produces evidence + exit status."""

    def __init__(self, prop, tier):
        self.prop = prop
        self.tier = tier
        self.t0 = time.time()
        self.states = 0
        self.transitions = 0
        self.traces = 0
        self.samples = []
        self.violations = []        # (description, replay path)
        self.known = {}             # signature -> count
        self.out_of_scope = {}
        self.drift = 0
        self.extra = {}
        self.assumptions = []
        self.inconclusive = None
        self.stages = []

    def add_tlc(self, name, r, constants=None):
        self.states += r.distinct
        self.transitions += r.generated
        st = {"stage": name, "distinct_states": r.distinct, "states_generated": r.generated, "depth": r.depth,
              "wall_s": round(r.wall, 1), "behaviours_emitted": r.n_emitted}
        if constants:
            st["constants"] = {k: (sorted(v) if isinstance(v, (set, frozenset)) else v) for k, v in constants.items()}
        if r.coverage:
            zero = sorted(k for k, v in r.coverage.items() if v == 0)
            st["actions_covered"] = len(r.coverage) - len(zero)
            st["actions_never_taken"] = zero
        self.stages.append(st)
        if r.error and not (r.error == "timeout" and False):
            raise Inconclusive("TLC failed in stage %s: %s (log %s)" % (name, r.error[:500], r.out_path))
        return st

    def violation(self, desc, artefact):
        if len(self.violations) >= 5:
            # enough artefacts: further violations of this run are only counted
            self.more_violations = getattr(self, "more_violations", 0) + 1
            return
        os.makedirs(REPLAYS, exist_ok=True)
        path = os.path.join(REPLAYS, "%s_%s_%d.json" % (self.prop, self.tier, len(self.violations)))
        with open(path, "w") as f:
            json.dump({"property": self.prop, "what": desc, "artefact": artefact}, f, indent=1)
        self.violations.append((desc, path))
        print("VIOLATION property=%s replay=%s" % (self.prop, path))
        print("  " + desc[:600])
        sys.stdout.flush()

    def absorb_replay(self, name, results, behaviours_path=None, foreign_ok=True):
        """Turns session results into verdicts for this property: a disagreement owned by this property is a
        violation, one owned by another property is counted as out of scope (its own check reports it)."""
        lines = None
        n_ok = 0
        for r in results:
            st = r.get("status")
            if st in ("ok", "known"):
                n_ok += 1
            self.drift += r.get("drift", 0)
            for k in r.get("known") or []:
                self.known[k] = self.known.get(k, 0) + 1
            if st in ("violation", "crash", "error"):
                if lines is None and behaviours_path:
                    lines = open(behaviours_path).read().splitlines()
                beh = json.loads(lines[r["id"]]) if lines and r.get("id", -1) < len(lines) else None
                if st == "error":
                    raise Inconclusive("session error on behaviour %s: %s" % (r.get("id"), r.get("error")))
                if st == "crash":
                    # a panic or hang of the real code while replaying: attributed to this check's property
                    self.violation("real code died while replaying behaviour %s (%s): %s" % (r.get("id"), r.get("mode"), (r.get("error") or "")[-800:]),
                                   {"behaviour": beh, "mode": r.get("mode")})
                    continue
                own = r.get("owner")
                if (r.get("mismatch") or {}).get("kind") == "hang":
                    own = self.prop   # like a crash: whichever check meets an operation that never returns reports it
                if own == self.prop:
                    self.violation("%s [%s mode]" % (r["mismatch"]["detail"], r.get("mode")),
                                   {"behaviour": beh, "mismatch": r["mismatch"], "mode": r.get("mode"), "ablated": r.get("ablated")})
                else:
                    self.out_of_scope[own] = self.out_of_scope.get(own, 0) + 1
        self.traces += len(results)
        self.stages.append({"stage": name, "replayed": len(results), "agreeing": n_ok})
        if behaviours_path and len(self.samples) < 3:
            with open(behaviours_path) as f:
                first = f.readline().strip()
            if first:
                steps = json.loads(first)[:12]
                if steps and isinstance(steps[0], dict) and "a" in steps[0] and "obs" in steps[0]:
                    beh = [{"op": s["op"], "a": s["a"], "res": s.get("pres", "ok"),
                            "reads": sorted([o.get("t", o.get("i")), o["k"], o["p"]] for o in s["obs"])} for s in steps]
                else:
                    beh = steps
                self.samples.append({"stage": name, "behaviour": beh})

    def finish(self):
        wall = time.time() - self.t0
        kf = known_findings()
        listed = {f["signature"]: f for f in kf.get("findings", []) if f.get("property") == self.prop}
        unlisted = [k for k in self.known if k not in listed]
        for k in unlisted:
            # a modelled deviation that fired although the known-findings file does not list it for this property
            other = [f for f in kf.get("findings", []) if f["signature"] == k]
            if not other:
                self.violation("deviation %s observed but not listed in known_findings.json" % k, {"signature": k})
        for k, c in self.known.items():
            if k in listed:
                print("KNOWN-FINDING: property=%s %s (%d behaviours)" % (self.prop, listed[k]["what"], c))
        ev = {
            "property_id": self.prop, "tier": self.tier, "seed": seed(), "level": "model_checking",
            "coverage": {
                "states": max(self.states, 0), "transitions": max(self.transitions, 0),
                "traces_validated_against_impl": self.traces,
                "samples": self.samples or [{"note": "no behaviour sampled"}],
                "stages": self.stages, "drift_events": self.drift, "out_of_scope": self.out_of_scope,
                "known_findings_hit": self.known,
            },
            "assumptions": self.assumptions, "wall_s": round(wall, 1), "violations": len(self.violations) + getattr(self, "more_violations", 0),
        }
        ev["coverage"].update(self.extra)
        if self.states < 1 or self.transitions < 1:
            ev["coverage"]["states"] = max(1, self.states)
            ev["coverage"]["transitions"] = max(1, self.transitions)
        os.makedirs(EVID, exist_ok=True)
        with open(os.path.join(EVID, "%s.json" % self.prop), "w") as f:
            json.dump(ev, f, indent=1)
        if self.violations:
            return 1
        return 0


def main_wrapper(fn, prop, tier):
    chk = Check(prop, tier)
    try:
        fn(chk)
        rc = chk.finish()
    except Inconclusive as e:
        print("INCONCLUSIVE property=%s: %s" % (prop, e))
        chk.extra["inconclusive"] = str(e)
        try:
            chk.finish()
        except Exception:
            pass
        rc = 2 if not chk.violations else 1
    except Exception as e:  # a defect of the machinery itself is never a verdict about the code
        import traceback
        traceback.print_exc()
        print("INCONCLUSIVE property=%s: the check itself failed: %r" % (prop, e))
        chk.extra["inconclusive"] = "internal error: %r" % (e,)
        try:
            chk.finish()
        except Exception:
            pass
        rc = 2 if not chk.violations else 1
    finally:
        subprocess.run(["pkill", "-f", "tlc2.TL[C]"], stdout=subprocess.DEVNULL, stderr=subprocess.DEVNULL) if False else None
    print("%s %s: exit %d  states=%d transitions=%d replayed/validated=%d drift=%d wall=%.0fs" % (
        prop, tier, rc, chk.states, chk.transitions, chk.traces, chk.drift, time.time() - chk.t0))
    return rc


# ----------------------------------------------------------------------------- direction B: traces

RESET_EVENT = {"op": "reset", "t": 0, "k": "", "c": 0, "l": "", "res": "ok", "obs": [], "keys": [], "n": -1, "nf": -1}


def record_traces(specs, outdir, timeout=600):
    """Runs cmd/rnd once per spec (a dict of flag -> value) in parallel; returns the list of trace paths."""
    exe = build("rnd")
    procs = []
    paths = []
    for i, sp in enumerate(specs):
        path = os.path.join(outdir, "trace%d.ndjson" % i)
        args = [exe, "-out", path]
        for k, v in sp.items():
            args.append("-%s=%s" % (k, v))
        paths.append(path)
        procs.append((args, None))
    running = []
    idx = 0
    t0 = time.time()
    failed = []
    while idx < len(procs) or running:
        while idx < len(procs) and len(running) < NPROC:
            p = subprocess.Popen(procs[idx][0], stdout=subprocess.DEVNULL, stderr=subprocess.PIPE, env=GOENV)
            running.append((p, idx))
            idx += 1
        time.sleep(0.01)
        still = []
        for p, i in running:
            if p.poll() is None:
                if time.time() - t0 > timeout:
                    p.kill()
                    raise Inconclusive("trace recording timed out")
                still.append((p, i))
            elif p.returncode != 0:
                failed.append((i, p.returncode, p.stderr.read().decode(errors="replace")[-2000:]))
        running = still
    return paths, failed


def validate_traces(module, consts, trace_paths, workdir, timeout=900):
    """Concatenates the traces (separated by reset events), lets TLC validate them against `module`, and returns
    (n_events_consumed, rejection) where rejection is None or (trace index, event index, reason)."""
    cat = os.path.join(workdir, "traces.ndjson")
    index = []          # global line (1-based) -> (trace idx, event idx)
    with open(cat, "w") as out:
        for ti, p in enumerate(trace_paths):
            if ti > 0:
                out.write(json.dumps(RESET_EVENT) + "\n")
                index.append((ti, -1))
            for ei, line in enumerate(open(p)):
                if line.strip():
                    out.write(line if line.endswith("\n") else line + "\n")
                    index.append((ti, ei))
    c = dict(consts)
    c["TraceFile"] = "traces.ndjson"
    cfg = os.path.join(workdir, "trace.cfg")
    write_cfg(cfg, c)
    r = run_tlc(module, cfg, workdir, workers=1, timeout=timeout)
    txt = open(r.out_path).read()
    r.drift = len(re.findall(r'<<\s*"DRIFT"', txt))
    m = re.search(r'<<\s*"REJECT",\s*"(.*?)"\s*>>', txt, re.S)
    if m:
        info = json.loads(json.loads('"' + m.group(1).replace("\n", "") + '"'))
        ti, ei = index[info["l"] - 1]
        return r, (ti, ei, info["why"])
    if r.error or r.violation:
        raise Inconclusive("trace validation failed to run: %s" % ((r.error or r.violation)[:800]))
    if r.distinct != len(index) + 1:
        raise Inconclusive("trace validation consumed %d of %d events without a rejection" % (r.distinct - 1, len(index)))
    return r, None


# ----------------------------------------------------------------------------- concurrency: programs, executions, linearisation

def run_conc(programs, mode="random", runs=20, preempt=2, nproc=NPROC, timeout=3000, extra=()):
    """Executes the programs (list of dicts) with cmd/conc, sharded over processes. Returns the executions."""
    exe = build("conc")
    wd = scratch("conc")
    try:
        path = os.path.join(wd, "progs.ndjson")
        with open(path, "w") as f:
            for p in programs:
                f.write(json.dumps(p) + "\n")
        n = len(programs)
        per = max(1, (n + nproc * 2 - 1) // (nproc * 2))
        jobs = [(i, min(per, n - i)) for i in range(0, n, per)]
        running, results, t0 = [], [], time.time()
        pending = list(jobs)
        while pending or running:
            while pending and len(running) < nproc:
                frm, cnt = pending.pop(0)
                outp = os.path.join(wd, "ex%d.ndjson" % frm)
                fh = open(outp, "w")
                p = subprocess.Popen([exe, "-in", path, "-mode", mode, "-runs", str(runs), "-preempt", str(preempt), "-seed", str(seed()),
                                      "-from", str(frm), "-count", str(cnt)] + list(extra), stdout=fh, stderr=subprocess.PIPE, env=GOENV)
                running.append((p, fh, outp, frm, cnt))
            time.sleep(0.02)
            still = []
            for (p, fh, outp, frm, cnt) in running:
                if p.poll() is None:
                    if time.time() - t0 > timeout:
                        p.kill()
                        raise Inconclusive("concurrent executions timed out")
                    still.append((p, fh, outp, frm, cnt))
                    continue
                fh.close()
                got = load_ndjson(outp)
                results.extend(got)
                if p.returncode != 0:
                    err = p.stderr.read().decode(errors="replace")
                    results.append({"program": programs[frm]["name"], "family": programs[frm].get("family"), "outcome": "crash",
                                    "detail": err[-3000:], "history": [], "gates": [], "decisions": []})
            running = still
        return results
    finally:
        shutil.rmtree(wd, ignore_errors=True)


def _lin_batch(args):
    histories, consts, cur, timeout = args
    wd = scratch("lin")
    try:
        index = []
        with open(os.path.join(wd, "traces.ndjson"), "w") as out:
            for n, hi in enumerate(cur):
                if n > 0:
                    out.write(json.dumps({"e": "reset", "id": 0}) + "\n")
                    index.append((hi, -1))
                for ei, ev in enumerate(histories[hi]):
                    out.write(json.dumps(ev) + "\n")
                    index.append((hi, ei))
        c = dict(consts)
        c["TraceFile"] = "traces.ndjson"
        cfg = os.path.join(wd, "lin.cfg")
        write_cfg(cfg, c, constraint="HW", postcondition="Accepted")
        r = run_tlc("LinTrace.tla", cfg, wd, workers=1, timeout=timeout, heap="2g")
        txt = open(r.out_path).read()
        m = re.search(r'"REJECTED_AT",\s*(\d+)', txt)
        if m:
            hi, ei = index[int(m.group(1)) - 1]
            pos = cur.index(hi)
            return r.distinct, r.generated, (hi, ei), cur[pos + 1:], None
        if r.error or (r.violation and "postcondition" not in r.violation.lower()):
            return r.distinct, r.generated, None, [], (r.error or r.violation)[:800]
        return r.distinct, r.generated, None, [], None
    finally:
        shutil.rmtree(wd, ignore_errors=True)


def linearise(histories, consts, batch=200, timeout=900, par=8):
    """Validates call/return histories against LinTrace.tla (batches separated by reset events, several TLC
    processes at a time). Returns (states, transitions, rejections); a rejection is (history index, index of the
    first event that no linearisation can consume)."""
    from concurrent.futures import ThreadPoolExecutor
    states = trans = 0
    rejections = []
    todo = [list(range(i, min(i + batch, len(histories)))) for i in range(0, len(histories), batch)]
    with ThreadPoolExecutor(max_workers=par) as pool:
        while todo:
            outs = list(pool.map(_lin_batch, [(histories, consts, cur, timeout) for cur in todo]))
            todo = []
            for st, tr, rej, rest, err in outs:
                states += st
                trans += tr
                if err:
                    raise Inconclusive("linearisation check failed to run: %s" % err)
                if rej:
                    rejections.append(rej)
                if rest:
                    todo.append(rest)
    return states, trans, rejections


def run_wprun(scenarios, mode="random", runs=20, preempt=2, nproc=NPROC, timeout=1800):
    """Executes worker-pool scenarios with cmd/wprun, one process per scenario (restarted after a hang)."""
    exe = build("wprun")
    wd = scratch("wp")
    try:
        path = os.path.join(wd, "sc.ndjson")
        with open(path, "w") as f:
            for s in scenarios:
                f.write(json.dumps(s) + "\n")
        results = []
        running = []
        pending = list(range(len(scenarios)))
        t0 = time.time()
        restarts = {}
        while pending or running:
            while pending and len(running) < nproc:
                i = pending.pop(0)
                outp = os.path.join(wd, "ex%d_%d.ndjson" % (i, restarts.get(i, 0)))
                fh = open(outp, "w")
                p = subprocess.Popen([exe, "-in", path, "-mode", mode, "-runs", str(runs), "-preempt", str(preempt),
                                      "-seed", str(seed() + 7919 * restarts.get(i, 0)), "-from", str(i), "-count", "1"],
                                     stdout=fh, stderr=subprocess.PIPE, env=GOENV)
                running.append((p, fh, outp, i))
            time.sleep(0.02)
            still = []
            for (p, fh, outp, i) in running:
                if p.poll() is None:
                    if time.time() - t0 > timeout:
                        p.kill()
                        raise Inconclusive("worker pool executions timed out")
                    still.append((p, fh, outp, i))
                    continue
                fh.close()
                results.extend(load_ndjson(outp))
                if p.returncode == 3 and restarts.get(i, 0) < 3 and mode == "random":
                    restarts[i] = restarts.get(i, 0) + 1
                    pending.append(i)
                elif p.returncode not in (0, 3):
                    results.append({"scenario": scenarios[i], "mode": mode, "outcome": "crash", "detail": p.stderr.read().decode(errors="replace")[-3000:],
                                    "events": [], "problems": [], "executed": [], "accepted": []})
            running = still
        return results
    finally:
        shutil.rmtree(wd, ignore_errors=True)


def validate_event_traces(module, consts, traces, reset, invariants=(), batch=100, timeout=600):
    """Validates event sequences (lists of dicts) against a trace specification with silent steps (HW register).
    Returns (states, transitions, n_accepted, rejected: [(trace index, event index)], invariant_violations: [(trace index, text)])."""
    states = trans = acc = 0
    rejected, inv = [], []
    todo = [list(range(i, min(i + batch, len(traces)))) for i in range(0, len(traces), batch)]
    while todo:
        cur = todo.pop(0)
        wd = scratch("tv")
        try:
            index = []
            with open(os.path.join(wd, "traces.ndjson"), "w") as out:
                for n, ti in enumerate(cur):
                    if n > 0:
                        out.write(json.dumps(reset) + "\n")
                        index.append((ti, -1))
                    for ei, ev in enumerate(traces[ti]):
                        out.write(json.dumps(ev) + "\n")
                        index.append((ti, ei))
            if not index:
                continue
            c = dict(consts)
            c["TraceFile"] = "traces.ndjson"
            cfg = os.path.join(wd, "t.cfg")
            write_cfg(cfg, c, init="TInit", next_="TNext", constraint="HW", postcondition="Accepted", invariants=invariants)
            r = run_tlc(module, cfg, wd, workers=1, timeout=timeout, heap="2g")
            states += r.distinct
            trans += r.generated
            txt = open(r.out_path).read()
            m = re.search(r'"REJECTED_AT",\s*(\d+)', txt)
            mi = re.search(r"Error: Invariant (\w+) is violated", txt)
            if mi:
                # which trace: the state printed last carries l
                ls = re.findall(r"/\\ l = (\d+)", txt)
                at = int(ls[-1]) if ls else 1
                ti, ei = index[min(at, len(index)) - 1]
                inv.append((ti, mi.group(1)))
                pos = cur.index(ti)
                acc += pos
                if cur[pos + 1:]:
                    todo.insert(0, cur[pos + 1:])
                continue
            if m:
                at = int(m.group(1))
                if at > len(index):
                    acc += len(cur)
                    continue
                ti, ei = index[at - 1]
                rejected.append((ti, ei))
                pos = cur.index(ti)
                acc += pos
                if cur[pos + 1:]:
                    todo.insert(0, cur[pos + 1:])
                continue
            if r.error or r.violation:
                raise Inconclusive("trace validation failed to run: %s" % ((r.error or r.violation)[:800]))
            acc += len(cur)
        finally:
            shutil.rmtree(wd, ignore_errors=True)
    return states, trans, acc, rejected, inv
