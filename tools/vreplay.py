#!/usr/bin/env python3
"""vreplay.py <replay artefact>

Re-executes the artefact a check stored next to a VIOLATION line (replays/<id>_<tier>_<n>.json) against the real code
built from /repo's current working tree (or VERIF_REPO), and says whether it still fails.

    behaviour of a specification   -> the worker that replays such behaviours (session, faults, wire, errmap, fixture,
                                      crash, procs, vlist, record, conf), same mode (inline / external / both)
    concurrent execution           -> cmd/conc with the recorded schedule (actor per decision), history judged by LinTrace.tla
    worker-pool execution          -> cmd/wprun with the recorded schedule
    recorded trace                 -> cmd/rnd with the same flags, trace validated by the trace specification again

Exit status: 0 the artefact no longer fails, 1 it fails again, 2 it could not be replayed.
"""
import json
import os
import subprocess
import sys

sys.path.insert(0, os.path.dirname(os.path.abspath(__file__)))
import vlib  # noqa: E402


def worker_for(steps):
    s = steps[0] if steps else {}
    if "obs" in s and "op" in s:
        return "session"
    if "labels" in s or ("op" in s and "view" in s):
        return "crash"
    if "api" in s or ("kind" in s and "len" in s) or ("free" in s and "fault" in s):
        return "faults"
    if "puts" in s:
        return "wire"
    if "err" in s and "detail" in s:
        return "errmap"
    if "bulk" in s:
        return "fixture"
    if "op" in s and isinstance(s.get("a"), dict) and ("i" in s["a"] or s["op"] in ("open", "close", "newproc")):
        return "procs"
    return None


def replay_behaviour(art):
    beh = art["behaviour"]
    steps = beh if isinstance(beh, list) else [beh]
    exe_name = worker_for(steps)
    if exe_name is None:
        print("cannot tell which worker replays this behaviour; it is:\n" + json.dumps(beh)[:2000])
        return 2
    wd = vlib.scratch("vr")
    path = os.path.join(wd, "b.ndjson")
    with open(path, "w") as f:
        f.write(json.dumps(beh) + "\n")
    mode = art.get("mode") or "inline"
    res = vlib.replay(path, mode=mode if exe_name == "session" else "inline", exe_name=exe_name, chunk=1)
    bad = [r for r in res if r.get("status") in ("violation", "crash", "error")]
    for r in res:
        print(json.dumps({k: r[k] for k in r if k in ("mode", "status", "owner", "mismatch", "error", "known")})[:1500])
    return 1 if bad else 0


def find_program(name):
    import vcheck
    gens = [vcheck.programs_c06, vcheck.programs_c07, vcheck.programs_c08, vcheck.programs_c12, vcheck.programs_free]
    for g in gens:
        for p in g():
            if p["name"] == name:
                return dict(p)
    return None


def replay_conc(art):
    import vcheck
    p = find_program(art["program"])
    if p is None:
        print("program %s is generated from a TLC schedule (L2 stage) and is not kept; the recorded history is:\n%s" % (
            art["program"], json.dumps(art.get("history"))[:3000]))
        return 2
    free = art["program"].startswith("free_")
    if free:
        execs = vlib.run_conc([p], mode="free", runs=30, extra=["-client", "inline"]) + vlib.run_conc([p], mode="free", runs=30, extra=["-client", "external"])
    else:
        p["schedule"] = [d["a"] for d in art.get("decisions") or []]
        execs = vlib.run_conc([p], mode="sched", runs=1, preempt=0)
    rc = 0
    hist = []
    for e in execs:
        if e["outcome"] == "stuck" and "not parked" in (e.get("detail") or ""):
            print("the recorded schedule can no longer be followed: at some step the actor it names is not waiting at a gate "
                  "(it is blocked, or already further on): the code no longer allows this interleaving")
        elif e["outcome"] != "ok":
            print("outcome %s: %s" % (e["outcome"], (e.get("detail") or "")[:600]))
            rc = 1 if e["outcome"] in ("deadlock", "panic", "crash", "reopen") else max(rc, 2)
        else:
            hist.append(e["history"])
    if hist:
        st, tr, rej = vlib.linearise(hist, dict(Keys={"k1", "k2"}, AllowedDev=set(vcheck.allowed_dev())))
        for hi, ei in rej:
            print("history %d is not linearizable w.r.t. the promise at event %d: %s" % (hi, ei, json.dumps(hist[hi][ei])))
            rc = 1
        if not rej:
            print("%d histories re-executed, all linearizable w.r.t. the promise" % len(hist))
    return rc


def replay_wprun(art):
    sc = dict(art["scenario"])
    sc["schedule"] = [d["a"] for d in art.get("decisions") or []]
    execs = vlib.run_wprun([sc], mode="random", runs=1)
    rc = 0
    for e in execs:
        probs = list(e.get("problems") or [])
        if e["outcome"] in ("deadlock", "panic", "crash"):
            probs.append("%s: %s" % (e["outcome"], (e.get("detail") or "")[:600]))
        print(json.dumps({"outcome": e["outcome"], "problems": probs}))
        if probs:
            rc = 1
    return rc


def replay_trace(art):
    spec = art["rnd"]
    wd = vlib.scratch("vr")
    paths, failed = vlib.record_traces([spec], wd)
    if failed:
        print("the real code died while recording: rc=%s %s" % (failed[0][1], failed[0][2][-800:]))
        return 1
    dirs = spec.get("obs") == "false" and "obsevery" not in spec
    nroots = int(spec.get("roots", 1))
    nkeys = int(spec.get("keys", 6))
    import vcheck
    if dirs:
        module, consts = "DirsTrace.tla", dict(Roots=set(range(1, nroots + 1)), Limit=100, MaxDirs=0, MaxSteps=0)
    else:
        module, consts = "L0Trace.tla", dict(Keys=vcheck.keyset(nkeys), AllowedDev=set(vcheck.allowed_dev()))
    r, rej = vlib.validate_traces(module, consts, paths, vlib.scratch("vrv"), timeout=2400)
    if rej is None:
        print("the history of seed %s is a behaviour of %s now" % (spec.get("seed"), module))
        return 0
    print("rejected at event %d: %s" % (rej[1], rej[2]))
    return 1


def main():
    if len(sys.argv) != 2:
        print(__doc__)
        return 2
    doc = json.load(open(sys.argv[1]))
    art = doc.get("artefact") or {}
    print("property %s: %s" % (doc.get("property"), (doc.get("what") or "")[:400]))
    try:
        if "behaviour" in art:
            return replay_behaviour(art)
        if "program" in art and "history" in art:
            return replay_conc(art)
        if "scenario" in art and "decisions" in art:
            return replay_wprun(art)
        if "rnd" in art:
            return replay_trace(art)
        if "execution" in art:
            e = art["execution"]
            return replay_conc({"program": e.get("program"), "decisions": e.get("decisions"), "history": None})
    except vlib.Inconclusive as e:
        print("could not replay: %s" % e)
        return 2
    print("no replay procedure for this artefact; it is:\n" + json.dumps(art)[:3000])
    return 2


if __name__ == "__main__":
    sys.exit(main())
