#!/bin/bash
# Runs every claimed check of MANIFEST.json in the given tier (default quick) and prints one line per check.
cd "$(dirname "$0")/.."
tier=${1:-quick}
for p in $(python3 -c "import json;print(' '.join(c['property_id'] for c in json.load(open('MANIFEST.json'))['checks']))"); do
  s=$(date +%s)
  out=$(python3 tools/vcheck.py $p $tier 2>&1); rc=$?
  echo "$p exit=$rc $(( $(date +%s) - s ))s $(echo "$out" | grep -c '^VIOLATION') violations $(echo "$out" | grep -c '^KNOWN-FINDING') known"
done
