#!/usr/bin/env python3
"""seedtest.py <mutant dir> <name> <property> <worktree> <demo spec> [checks...]

Confirms a seeded change independently (applies in a scratch worktree: build, unedited baseline suite,
demonstration fails with / passes without), stores it under /verif/seeded/<name>/, then applies it to /repo,
runs the given checks (default: the property's quick check) and undoes it straight afterwards.

demo spec: comma separated  src=dst  pairs (files of the mutant dir copied into the worktree) followed by
           '::' and the go test command to run in the worktree, e.g.
           demo_test.go=pkg/inline/demo_test.go::go test -tags verif -count=1 -run Demo ./pkg/inline/
"""
import json, os, shutil, subprocess, sys, time

ENV = dict(os.environ, GOFLAGS="-mod=mod", GOPROXY="off", GOSUMDB="off", GOTOOLCHAIN="local")

def sh(cmd, cwd, timeout=1500):
    p = subprocess.run(cmd, cwd=cwd, shell=True, env=ENV, stdout=subprocess.PIPE, stderr=subprocess.STDOUT, text=True, timeout=timeout)
    return p.returncode, p.stdout

def baseline(cwd):
    rc, out = sh("go test -mod=mod -json -vet=off -count=1 -timeout 25m ./... 2>/dev/null", cwd)
    passed = set()
    for l in out.splitlines():
        try: e = json.loads(l)
        except Exception: continue
        if e.get("Test") and e.get("Action") == "pass":
            passed.add(e["Package"] + "::" + e["Test"])
    base = set(json.load(open("/root/.vp/BASELINE.json"))["stable_pass"])
    missing = base - passed
    if missing:
        # a few of the repository's own tests are flaky on a loaded machine: what is missing is run once more, alone
        pkgs = sorted({m.split("::")[0] for m in missing})
        rc, out = sh("go test -mod=mod -json -vet=off -count=1 -timeout 25m %s 2>/dev/null" % " ".join(pkgs), cwd)
        for l in out.splitlines():
            try: e = json.loads(l)
            except Exception: continue
            if e.get("Test") and e.get("Action") == "pass":
                missing.discard(e["Package"] + "::" + e["Test"])
    return sorted(missing)

def main():
    mdir, name, prop, wt, demo = sys.argv[1:6]
    checks = sys.argv[6:] or ["python3 tools/vcheck.py %s quick" % prop]
    patch = os.path.join(mdir, "patch.diff")
    files, cmd = demo.split("::")
    pairs = [f.split("=") for f in files.split(",") if f]
    meta = {"name": name, "property": prop, "source": "independent sub-agent given only the property text", "ran": []}
    sh("git checkout -- . && git clean -fdq", wt)
    # demonstration on the pristine tree
    for src, dst in pairs:
        os.makedirs(os.path.dirname(os.path.join(wt, dst)), exist_ok=True)
        shutil.copyfile(os.path.join(mdir, src), os.path.join(wt, dst))
    rc0, out0 = sh("timeout 900 " + cmd, wt)
    meta["demo_pristine_rc"] = rc0
    rc, out = sh("git apply " + patch, wt)
    if rc != 0:
        print("patch does not apply:", out); return 2
    rcb, outb = sh("go build ./... 2>&1 | grep -v streamwriter | grep -v '^#' ; go build -tags verif ./... 2>&1 | grep -v streamwriter | grep -v '^#'", wt)
    meta["build_output"] = outb.strip()
    rc1, out1 = sh("timeout 900 " + cmd, wt)
    meta["demo_mutant_rc"] = rc1
    for src, dst in pairs:
        os.remove(os.path.join(wt, dst))
    missing = baseline(wt)
    meta["baseline_missing_with_mutant"] = missing
    sh("git checkout -- . && git clean -fdq", wt)
    ok = rc0 == 0 and rc1 != 0 and not missing and not outb.strip()
    meta["confirmed"] = ok
    print("confirm: demo pristine rc=%d, demo mutant rc=%d, baseline missing=%d, build msgs=%r -> %s" % (rc0, rc1, len(missing), outb.strip()[:200], "CONFIRMED" if ok else "NOT CONFIRMED"))
    if not ok:
        print(out0[-1500:]); print(out1[-1500:])
        return 3
    dst = os.path.join("/verif/seeded", name)
    os.makedirs(dst, exist_ok=True)
    for f in os.listdir(mdir):
        if f.endswith((".diff", ".go", ".md")):
            shutil.copyfile(os.path.join(mdir, f), os.path.join(dst, f if not f.endswith(".go") else f + ".txt"))
    meta["demo_cmd"] = cmd
    meta["demo_files"] = pairs
    # run the checks against a checkout with the change applied (VERIF_REPO): /repo itself is not touched, and the
    # harness, specifications and orchestrator are exactly the ones the registered commands use
    rc, out = sh("git apply " + os.path.abspath(patch), wt)
    try:
        for c in checks:
            t0 = time.time()
            rc, out = sh("VERIF_REPO=%s %s" % (wt, c), "/verif", timeout=7200)
            viol = [l for l in out.splitlines() if l.startswith("VIOLATION")]
            meta["ran"].append({"cmd": c, "exit": rc, "violations": viol[:3], "tail": out.splitlines()[-3:], "wall_s": round(time.time() - t0)})
            print("check %-40s exit=%d %s" % (c, rc, viol[:1]))
    finally:
        sh("git checkout -- . && git clean -fdq", wt)
    meta["detected_by"] = [r["cmd"] for r in meta["ran"] if r["exit"] == 1]
    try:
        meta["needs"] = open(os.path.join(mdir, "README.md")).read()[:1500]
    except Exception:
        pass
    json.dump(meta, open(os.path.join(dst, "meta.json"), "w"), indent=1)
    return 0

if __name__ == "__main__":
    sys.exit(main())
