#!/usr/bin/env python3
"""Writes MANIFEST.json from the table below (one source of truth for claims)."""
import json, os, subprocess
V = os.path.dirname(os.path.dirname(os.path.abspath(__file__)))

def hook_commits():
    try:
        out = subprocess.run(["git", "-C", "/repo", "log", "--format=%H %s"], capture_output=True, text=True).stdout
        return [l.split()[0] for l in out.splitlines() if " verif:" in l]
    except Exception:
        return []

TRUST = ("TLC 1.8.0 and its fingerprinting; the harness mapping of abstract keys/contents to concrete ones (injective, byte-exact compare); "
         "Badger's own atomicity; behaviours bounded as stated in the evidence file")

CLAIMS = {
 "C01": ("TLC model checking of FsDb.tla (L1 mechanism refines L0 promise) + exhaustive replay of all emitted autocommit behaviours in the real database",
         "Every autocommit history over 2-3 keys up to the stated length is enumerated by TLC from the specification and executed against the real, fully assembled database through Set/SetReader/Create and Get/GetReader/GetKeys with boundary-length contents; simulation adds depth-40 histories.", "6 C01"),
 "C02": ("TLC model checking of FsDb.tla + replay of every emitted transactional behaviour with the full read matrix compared after each step",
         "All interleavings of Begin/Set/Delete/Commit/Rollback/GC over <=2-3 transactions of all levels up to the stated depth are enumerated; after every step every open reader reads every key and GetKeys in the real code and must return what the L0 promise says.", "6 C02"),
 "C03": ("TLC model checking of FsDb.tla (CommitAsPromised, Refines) + replay of emitted behaviours containing Commit/Rollback",
         "Commit result class and the autocommit read matrix after every Commit/Rollback are compared with the promise on all enumerated histories with overlapping write sets.", "6 C03"),
 "C04": ("TLC invariants on FsDbCrash.tla (one step per persistent mutation, kill before any of them, also inside recovery, two kills) + every emitted workload executed in child processes killed by SIGKILL before every mutation, recovered state compared with acknowledged prefix +- whole in-flight call",
         "All workloads of 3-5 calls (autocommit and transactional Set/Delete, multi-key Commit, Rollback, collector) are enumerated by TLC; the real code is killed before each of its persistent mutations (file create/write/close/remove, mkdir, Badger set/delete/transaction), reopened in fresh processes twice, and killed again inside recovery; the mutation labels logged by the real code must be the specification's (a mismatch is drift). Also: a kill immediately after every acknowledgement, and a commit of 1001..5000 keys killed before each persistent mutation its Commit makes (Bulk.tla, mode commitcrash).", "6 C04"),
 "C05": ("TLC model checking of Reopen.tla (instances x processes x sequence counter) and FsDb.tla with Close/Open at every position + replay in real OS processes; a TLAPS proof of LastWriteWins for any number of instances, keys, processes and steps (proofs/ReopenProof.tla)",
         "Every script of open/close/write/delete/new-process over 1-2 database instances up to the stated length is enumerated by TLC and executed in fresh child processes over the same directories; in-process Close/Open is inserted at every position of transactional histories.", "6 C05"),
 "C06": ("controlled-scheduler executions of the real code (all schedules up to a preemption bound + seeded random) validated by TLC against LinTrace.tla: linearizability w.r.t. the L0 promise; deadlock = all actors blocked",
         "Small concurrent client programs (2-4 clients, autocommit and RU/RC transactions, a collector actor, shared keys) run with every gate of fs_db as a scheduling point; TLC searches a linearisation of each recorded call/return history; a panic or an all-blocked state is a violation. The same check judges free-running executions (ordinary goroutines, inline and through gRPC, contents up to 150 000 bytes, many overlapping reads). The defect these executions found (a read overtaken by an overwrite and a collection answered ErrNotFound) was kept as a known finding, recognised by schedule and outcome, and is repaired now (model.ContentGuard; constant ContentGuard of FsDbConc.tla).", "6 C06"),
 "C07": ("as C06, programs of 2-3 concurrently committing snapshot transactions with intersecting write sets (plus autocommit writers); the L0 conflict rule under linearisation decides first-committer-wins; a TLAPS proof that test-and-publish in one critical section gives first-committer-wins for any number of transactions and keys (proofs/CommitProof.tla)",
         "Every interleaving of the commit micro-steps (registry delete, conflict check, sequence draws, publication, unlink) up to the preemption bound is executed on the real code.", "6 C07"),
 "C08": ("as C06, programs of snapshot readers x multi-key committers x autocommit writers x collector; Begin of a snapshot transaction may linearise after its return (consistency and stability, not recency); a TLAPS proof of all-or-none, stable views and horizon-below-every-open-snapshot for the repaired design with any number of committers, snapshots and keys (proofs/SnapshotProof.tla)",
         "Reads of every snapshot transaction must be explained by one instant of the linearised commit order. The two defects these executions and the L2 model found (a Begin between the publishing draws of a commit; a Begin unregistered while the collector fixes its horizon) were kept as known findings, recognised by schedule and outcome, and are repaired now (sequence.NextN, sequence.Horizon; constants RangeDraw / HorizonLock of FsDbConc.tla).", "6 C08"),
 "C09": ("TLC action property GCInvisible + ReadableHasContent on FsDb.tla, replay of behaviours with the collector at every position; blame by ablation of the GC steps",
         "The collector is enabled at every state of the bounded model; in the real code all reads of all open transactions are compared before/after and for the rest of the behaviour, and a disagreement that disappears when the GC steps are left out is attributed to the collector. A reader held open (ROpen/RFinish in the specification) across overwrites, ends of transactions and collections must deliver the content it began with.", "6 C09"),
 "C10": ("TLC invariants on SetRetry.tla (no-space continuation over roots: success is exact, continues where there is room) and Upload.tla (an aborted upload leaves no trace, nobody sees a prefix) + every emitted fault scenario executed on the real code (write-fault and free-space hooks; failing reader, cancelled context, cut connection through a proxy)",
         "Every combination of free-space ranks, fault position (each file write call) and kind (nothing written / half a chunk written) on 2-3 roots, and every position of reader error / cancellation / connection cut in uploads of several lengths, through inline Set/SetReader/Create and the gRPC client; afterwards an independent client reads the key, and the database is closed and opened again: a failed write must stay failed. Cut connections are repeated many times (whether gRPC replays on the re-dialled connection depends on the moment); an upload that does not return is a hang verdict.", "6 C10"),
 "C11": ("the L1 behaviours emitted by TLC are replayed through external.Open against the real gRPC server and through the inline client; a disagreement only the external run shows is a C11 violation",
         "All behaviours of the C01/C02/C03/C13 families up to the stated depth are executed through both clients (contents across the 2048-byte chunk boundary, all four levels, late operations, server restarts) and compared step by step with the L0 promise by errors.Is classes and byte equality. ErrMap.tla enumerates error values (sets of sentinels) through the server and client adapters in every wrapping shape; Upload.tla's early server verdicts (empty key, no space) must reach the caller whenever they arrive; Download.tla: a read over a cut connection or cancelled context ends with an error or with the whole content; a header-less upload is refused as ErrHeaderNotFound.", "6 C11"),
 "C12": ("TLC on AsyncRW.tla (one action per segment between two gates of read_writer.go; safety Concatenation, no stuck state, liveness CloseReturns) + every emitted schedule replayed step by step on the real readWriter + inline Create end to end under controlled schedules",
         "All schedules of writer and storing goroutine for 16 write patterns (sizes 0..3, empty writes first/middle/last) x reader buffer sizes are enumerated by TLC and executed on the real pipe through its gates with zero drift; a hang is recognised from goroutine wait states (all actors blocked), never by time-out; Create with sizes 0, 1, 32 KiB +-1 runs under the scheduler and free (inline and gRPC) and is linearised.", "6 C12"),
 "C13": ("TLC action property LateIsIdentity on FsDb.tla with late operations enabled for every ended handle + replay with an RU observer and reopen",
         "Every operation through ended handles is tried at every state of the bounded model; the real result classes and all other readers' reads are compared with the promise. One stage runs through the gRPC client. The defect this found (late writes accepted) was modelled as the named deviation 'latewrite' until it was repaired at the handle; the deviation is no longer allowed.", "6 C13"),
 "C14": ("TLC invariant Reclaimed on FsDb.tla + replay of behaviours ending in quiescence with a walk of the storage roots",
         "At every quiescent state (no open transaction, pool drained, one collector pass, or clean reopen) the real roots must hold exactly one content file per readable key.", "6 C14"),
 "C16": ("TLC safety (each job at most once, no panic, no start after Stop, Stop waits for jobs, no stranded job) and liveness on WPool.tla (effects silent, observations = gate arrivals); real pool executions under the controlled scheduler judged by counters and goroutine states and validated by TLC against WPoolTrace.tla; TLC counterexample schedules replayed",
         "Ten scenarios (deferred path with 1-2 workers, Stop against direct and deferred Sends, concurrent Stops, Stop/Run/Send, Send and Stop before Run, double Run) run under all schedules up to a preemption bound plus random ones; every recorded sequence of gate arrivals must be a behaviour of the specification with TLC placing the unobservable effects.", "6 C16"),
 "C17": ("TLC invariants on Dirs.tla (bounded counts, every root offers a directory, room is reused) with a limit of 2 + the same bound for every limit >= 1 as an inductive invariant discharged by Apalache (DirsInd.tla, limit symbolic) and proved with TLAPS for any number of directories (proofs/DirsProof.tla) + recorded walks of the storage roots of long random histories validated by TLC against DirsTrace.tla with the real limit",
         "After every API call of histories with hundreds to thousands of writes/deletes/collections/reopenings over 1-3 roots the tree is walked; TLC decides which directories may be created and offered and infers the random choice of directory from the walk. Roots are spelled cleanly or with redundant slashes, the limit is configured as 100 or below (clamped to 100), scripted waves make directories fill, drain and refill; a directory with room that is passed over by more than 30 k consecutive writes (k directories with room) is rejected as starved.", "6 C17"),
 "C18": ("TLC invariants on VersionList.tla (binary search transcribed branch for branch = declarative last-below; collect rule; mirror = list) + replay of every emitted behaviour on the real core.Transaction; the collect rule at the use case (content files after every gc step of FsDb.tla behaviours); a TLAPS proof that a collection leaves lookups at or after the horizon unchanged for lists of any length (proofs/CollectProof.tla)",
         "All behaviours of the list state machine (push/pop-front/pop-back/collect) to the stated depth, all 4096 increasing lists over a 12-element domain with all 14 probes, and simulated lists of hundreds to thousands of versions are executed on the real per-key store; results, list content, array mirror, Latest and LastBefore are compared.", "6 C18"),
 "C19": ("layout function in Record.tla, TLC-generated golden vectors and byte strings replayed through the real version-record repository; fixture directory of the pinned revision",
         "Golden records over boundary values are encoded by the real repository and compared byte for byte with the layout function, decoded back, and the layout bytes decode to the same values; byte strings of length 0..42 must decode without panic and be rejected iff shorter than 40; a database directory written by the pinned revision must load to the recorded state. Transcription plus generated vectors: the weakest use of the technique, claimed at that strength.", "6 C19"),
 "C20": ("Config.tla enumerates every configuration case with at most 2 (quick) / 3 (thorough) settings away from absent; each is executed through config.ParseConfig and Storage.Valid on a real YAML file and process environment",
         "Per setting: absent / file / env / both / empty env (alone, over file) / malformed file / malformed env (alone, over file) / values that matter to Valid; TLC checks the layering rule on the case function and emits the expected outcome per case.", "6 C20"),
}

NOT_YET = {
}

NA = {
 "C15": "data-race freedom is a statement about individual memory accesses and their happens-before order; a TLA+ trace observes actions (critical sections, calls), not loads and stores, so neither TLC nor trace validation can decide it; the sound offline procedure is the Go race detector, a different technique family (DESIGN.md section 7)",
}

def main():
    props = [json.loads(l)["id"] for l in open(os.path.join(V, "properties.jsonl"))]
    checks = []
    for pid in props:
        if pid not in CLAIMS:
            continue
        tech, text, ref = CLAIMS[pid]
        checks.append({
            "property_id": pid,
            "quick_cmd": "python3 tools/vcheck.py %s quick" % pid,
            "thorough_cmd": "python3 tools/vcheck.py %s thorough" % pid,
            "evidence_file": "/verif/evidence/%s.json" % pid,
            "replay_cmd_template": "python3 tools/vreplay.py {path}",
            "engine": "tlc+go-harness",
            "level_claimed": {"category": "model_checking", "text": text, "design_ref": "DESIGN.md section " + ref},
            "level_note": TRUST,
            "technique": tech,
        })
    na = []
    for pid in props:
        if pid in CLAIMS:
            continue
        if pid in NA:
            na.append({"property_id": pid, "reason": NA[pid]})
        else:
            na.append({"property_id": pid, "reason": NOT_YET.get(pid, "check not built yet at this commit; planned per DESIGN.md section 6")})
    man = {
        "version": 1,
        "setup_cmd": "bash tools/setup.sh",
        "hooks": {
            "guard": "verif",
            "enable": "go build -tags verif (hooks are no-ops unless a harness installs them)",
            "baseline_off_cmd": "bash /verif/tools/baseline_off.sh",
            "source_commits": hook_commits(),
            "add_only": True,
        },
        "engines": [
            {"name": "tlc+go-harness", "path": "/verif/tools/vcheck.py", "serves_properties": sorted(CLAIMS),
             "kind_free_text": "explicit TLA+ specifications under /verif/spec checked with TLC; behaviours emitted by TLC are replayed in the real code and traces recorded from the real code are validated by TLC (Go harness under /verif/harness, built with -tags verif from /repo's working tree)"}
        ],
        "checks": checks,
        "not_applicable": na,
        "notes": "Exit codes: 0 held, 1 VIOLATION, 2 inconclusive (never a verdict). known_findings.json lists recorded defects.",
    }
    with open(os.path.join(V, "MANIFEST.json"), "w") as f:
        json.dump(man, f, indent=1)
        f.write("\n")

if __name__ == "__main__":
    main()
