#!/bin/bash
# Builds the verification harness from files on disk (offline) and parses every specification.
set -e
cd "$(dirname "$0")/.."
export GOFLAGS=-mod=mod GOPROXY=off GOSUMDB=off GOTOOLCHAIN=local
mkdir -p bin evidence
cat /repo/go.sum harness/go.sum 2>/dev/null | sort -u > harness/go.sum.new && mv harness/go.sum.new harness/go.sum
(cd harness && for c in cmd/*/; do go build -tags verif -o ../bin/$(basename $c) ./$c; done)
tmp=$(mktemp -d /tmp/sany.XXXXXX); trap 'rm -rf "$tmp"' EXIT
cp spec/*.tla "$tmp"/
(cd "$tmp" && for f in *.tla; do timeout 120 tla-sany "$f" > sany.out 2>&1 || { cat sany.out; echo "SANY failed on $f"; exit 1; }; done)
echo "setup ok"
